package main

// Cross-format properties C06 (decoding is independent of how the bytes are
// delivered; File = Reader) and C07 (a failing stream is reported; failing
// writers). Kinds mirror coq/Corr/StreamCorr.v; records and items are encoded as
// in the formats' own kinds (fasta.go, fastq.go, sam.go, bed.go, newick.go).
//
//	c06_<fmt>       [bytes schedule withEOF (oracle)] -> items of Reader on chunkReader
//	c06_crlf_<fmt>  [bytes (oracle)]                  -> items of Reader on the bytes with every LF replaced by CR LF
//	c06_file_<fmt>  [bytes mode (oracle)]             -> items of File (sam: [File FileHeader]); mode 0 plain, 1 gzip *.gz, 2 missing path
//	c07_read_<fmt>  [bytes k forever (oracle)]        -> items of Reader on faultReader{bytes[:k], forever}, or [i3 "cap"]
//	c07_write_<fmt> [record k (oracle)]               -> [i0 emitted] | [i1 emitted]   (Write into limitWriter{k})
//
// <fmt> = fasta fastq sam bed newick. For sam "Reader" is ReaderHeader; sam.Reader
// (records only) has the kinds c06_samrec and c07_read_samrec of its own and is
// compared with ReaderHeader on every sam case. (oracle): the float
// oracle of the case, sam and newick only. newick items are wrapped [i0 items]
// as in newick_decode.

import (
	"bytes"
	"compress/gzip"
	"fmt"
	"io"
	"iter"
	"os"
	"path/filepath"
	"slices"
	"sort"
	"strings"

	"github.com/fluhus/biostuff/formats/bed"
	"github.com/fluhus/biostuff/formats/fasta"
	"github.com/fluhus/biostuff/formats/fastq"
	"github.com/fluhus/biostuff/formats/newick"
	"github.com/fluhus/biostuff/formats/sam"
)

var vCap = L(I(3), S("cap"))

// collect runs an iterator to its end and only then encodes what it yielded
// (a reader handing out slices of its own buffer would be seen). More than
// limit items: the distinct observable vCap.
func collect[T any](it iter.Seq2[T, error], limit int, enc func(T) (Val, bool)) Val {
	type pair struct {
		v   T
		err error
	}
	var got []pair
	for v, err := range it {
		got = append(got, pair{v, err})
		if len(got) > limit {
			return vCap
		}
	}
	items := Val{K: 'l'}
	for _, g := range got {
		if g.err != nil {
			items.L = append(items.L, L(I(1)))
			continue
		}
		v, ok := enc(g.v)
		if !ok {
			items.L = append(items.L, L(I(3), S("nil record without an error")))
			continue
		}
		items.L = append(items.L, L(I(0), v))
	}
	return items
}

func encFasta(f *fasta.Fasta) (Val, bool) {
	if f == nil {
		return Val{}, false
	}
	return vFasta(f.Name, f.Sequence), true
}
func encFastq(f *fastq.Fastq) (Val, bool) {
	if f == nil {
		return Val{}, false
	}
	return fqRecVal(f.Name, f.Sequence, f.Quals), true
}
func encSamHdr(sh sam.SAMOrHeader) (Val, bool) {
	switch {
	case sh.H != nil && sh.S == nil:
		return L(I(0), S(*sh.H)), true
	case sh.S != nil && sh.H == nil:
		return L(I(1), samVal(sh.S)), true
	}
	return Val{}, false
}
func encSam(s *sam.SAM) (Val, bool) {
	if s == nil {
		return Val{}, false
	}
	return samVal(s), true
}
func encBed(b *bed.BED) (Val, bool) {
	if b == nil {
		return Val{}, false
	}
	return bedVal(b), true
}
func encNewick(n *newick.Node) (Val, bool) {
	if n == nil {
		return Val{}, false
	}
	return nodeVal(n), true
}

func wrapOk(v Val) Val {
	if v.String() == vCap.String() {
		return v
	}
	return vOk(v)
}

// streamFmt: one format seen through its Reader / File / Write.
type streamFmt struct {
	name      string
	oracle    bool                                                        // cases carry a float oracle
	reader    func(r io.Reader, limit int) Val                            // items of Reader (sam: ReaderHeader)
	file      func(path string, limit int) Val                            // items of File (sam: [File FileHeader])
	fileRef   func(data []byte, limit int) Val                            // what File must give: the Reader(s) on the same bytes
	openErr   Val                                                         // exactly one error item
	items     func(v Val) []Val                                           // the item list inside a reader observable
	inOracle  func(data []byte) Val                                       // float oracle of an input text
	write     func(rec Val, w io.Writer) error                            // <record>.Write(w)
	marshal   func(rec Val) ([]byte, error)                               // <record>.MarshalText()
	recOracle func(rec Val) Val                                           // float oracle of a record
	gen       func(c *Ctx, maxLen int, noLF bool) ([]byte, []Val, string) // a well-formed file, its records, a stratum
	small     []string                                                    // tiny inputs for the all-partitions sweep
	alphabet  string                                                      // mutation alphabet
	extra     func(r io.Reader, limit int, out Val) string                // further readers of the format on the same stream
	readOnly  bool                                                        // only the Reader kinds (c06_<fmt>, c07_read_<fmt>)
	kRead     *Kind
	kCRLF     *Kind
	kFile     *Kind
	kFault    *Kind
	kWrite    *Kind
}

// collectRe collects the items of it twice: the iterators the library returns can be
// ranged over again (File opens the file anew each time); the second pass must give
// what the first gave.
func collectRe[T any](it iter.Seq2[T, error], limit int, enc func(T) (Val, bool)) Val {
	first := collect(it, limit, enc)
	second := collect(it, limit, enc)
	if first.String() != second.String() {
		return L(L(I(3), S("ranging over the same iterator value a second time gives different items")))
	}
	return first
}

func plainItems(v Val) []Val { return v.List() }

var oneErr = L(L(I(1)))

func samOracleOf(data []byte) Val {
	o := newFloatOracle(samFmtFloat)
	samScanTokens(o, data)
	return o.Val()
}

var streamFmts = []*streamFmt{
	{name: "fasta",
		reader:  func(r io.Reader, limit int) Val { return collect(fasta.Reader(r), limit, encFasta) },
		file:    func(p string, limit int) Val { return collectRe(fasta.File(p), limit, encFasta) },
		openErr: oneErr, items: plainItems,
		write: func(rec Val, w io.Writer) error {
			return (&fasta.Fasta{Name: rec.At(0).Bytes(), Sequence: rec.At(1).Bytes()}).Write(w)
		},
		marshal: func(rec Val) ([]byte, error) {
			return (&fasta.Fasta{Name: rec.At(0).Bytes(), Sequence: rec.At(1).Bytes()}).MarshalText()
		},
		gen: func(c *Ctx, maxLen int, noLF bool) ([]byte, []Val, string) {
			recs, _, _ := c.fastaRecords(maxLen)
			for len(recs) > 0 && len(fastaWritten(recs)) > maxLen {
				recs = recs[:len(recs)-1]
			}
			var rv []Val
			for _, r := range recs {
				rv = append(rv, vFasta(r.Name, r.Sequence))
			}
			return slices.Clone(fastaWritten(recs)), rv, fmt.Sprintf("records=%d", len(recs))
		},
		small:    []string{">a\nAC\n", ">a\nA\n>b\nG", ">x\r\nA\r\nC", "\n>a\n\nA", "AC\n>b\n", ">\n>\n", ">a>b\nA\nC\n>c"},
		alphabet: ">>\n\n\r ACGT"},
	{name: "fastq",
		reader:  func(r io.Reader, limit int) Val { return collect(fastq.Reader(r), limit, encFastq) },
		file:    func(p string, limit int) Val { return collectRe(fastq.File(p), limit, encFastq) },
		openErr: oneErr, items: plainItems,
		write:   func(rec Val, w io.Writer) error { return fqRecsOf(L(rec))[0].Write(w) },
		marshal: func(rec Val) ([]byte, error) { return fqRecsOf(L(rec))[0].MarshalText() },
		gen: func(c *Ctx, maxLen int, noLF bool) ([]byte, []Val, string) {
			n := c.Choose(0, 1, 1, 2, 3, 4, 6)
			var buf []byte
			var rv []Val
			for i := 0; i < n; i++ {
				r := c.fqRecord(c.fqSmallLen())
				t := fqRefText(r)
				if len(buf)+len(t) > maxLen {
					continue
				}
				buf = append(buf, t...)
				rv = append(rv, fqRecVal(r.Name, r.Sequence, r.Quals))
			}
			return buf, rv, fmt.Sprintf("records=%d", len(rv))
		},
		small:    []string{"@a\nA\n+\nI\n", "@\n\n+\n\n", "@a\r\nA\r\n+\r\nI", "@a\nAC\n+\nI\n", "@a\nA\n+\nI\n@", "a\n", "@a\nA\n-\nI\n"},
		alphabet: "@@++\n\n\rAI "},
	{name: "sam", oracle: true,
		reader: func(r io.Reader, limit int) Val { return collect(sam.ReaderHeader(r), limit, encSamHdr) },
		file: func(p string, limit int) Val {
			return L(collectRe(sam.File(p), limit, encSam), collectRe(sam.FileHeader(p), limit, encSamHdr))
		},
		fileRef: func(data []byte, limit int) Val {
			return L(collect(sam.Reader(bytes.NewReader(data)), limit, encSam),
				collect(sam.ReaderHeader(bytes.NewReader(data)), limit, encSamHdr))
		},
		openErr: L(oneErr, oneErr), items: plainItems,
		inOracle: samOracleOf,
		// sam.Reader on the same stream = ReaderHeader's items without the header lines
		extra: func(r io.Reader, limit int, out Val) string {
			got := collect(sam.Reader(r), limit, encSam)
			want := Val{K: 'l'}
			if isCap(out) {
				return ""
			}
			for _, it := range out.List() {
				switch {
				case len(it.L) == 1:
					want.L = append(want.L, it)
				case len(it.L) == 2 && it.L[0].I == 0 && it.L[1].At(0).Int() == 1:
					want.L = append(want.L, L(I(0), it.L[1].At(1)))
				}
			}
			if got.String() != want.String() {
				return "sam.Reader differs from sam.ReaderHeader minus the header lines: Reader gives " + clip(got.String())
			}
			return ""
		},
		write:   func(rec Val, w io.Writer) error { return samFromVal(rec).Write(w) },
		marshal: func(rec Val) ([]byte, error) { return samFromVal(rec).MarshalText() },
		recOracle: func(rec Val) Val {
			o := newFloatOracle(samFmtFloat)
			samRecordOracle(o, samFromVal(rec))
			return o.Val()
		},
		gen: func(c *Ctx, maxLen int, noLF bool) ([]byte, []Val, string) {
			var buf []byte
			nh := 0
			for j := c.Intn(3); j > 0; j-- {
				h := "@" + []string{"HD\tVN:1.6\tSO:coordinate", "SQ\tSN:chr1\tLN:100", "CO\t\"quoted\" text", "", "@", "CO\t"}[c.Intn(6)]
				buf = append(buf, h...)
				buf = append(buf, '\n')
				nh++
			}
			var rv []Val
			for j := c.Choose(0, 1, 1, 2, 3, 4); j > 0; j-- {
				s := c.samRecord()
				t := samText(s)
				if len(buf)+len(t) > maxLen {
					continue
				}
				buf = append(buf, t...)
				rv = append(rv, samVal(s))
			}
			return buf, rv, fmt.Sprintf("headers=%d,records=%d", nh, len(rv))
		},
		small:    []string{"@h\nx\n", "@h\r\nx\n\n@k", "\n\n@", "a\tb\n@c", "@a\n@b\n@c\n", "\r\r\n@\r"},
		alphabet: "\t\t\t\n\n\r@:iZAf019-"},
	{name: "bed",
		reader:  func(r io.Reader, limit int) Val { return collect(bed.Reader(r), limit, encBed) },
		file:    func(p string, limit int) Val { return collectRe(bed.File(p), limit, encBed) },
		openErr: oneErr, items: plainItems,
		write:   func(rec Val, w io.Writer) error { return valBed(rec).Write(w) },
		marshal: func(rec Val) ([]byte, error) { return valBed(rec).MarshalText() },
		gen: func(c *Ctx, maxLen int, noLF bool) ([]byte, []Val, string) {
			n := 3 + c.Intn(10)
			var buf []byte
			var rv []Val
			for j := c.Choose(0, 1, 1, 2, 3, 5); j > 0; j-- {
				b := c.bedRecord(n)
				t, err := b.MarshalText()
				if err != nil || len(buf)+len(t) > maxLen {
					continue
				}
				buf = append(buf, t...)
				rv = append(rv, bedVal(b))
			}
			return buf, rv, fmt.Sprintf("N=%d", n)
		},
		small:    []string{"c\t1\t2\n", "a\t1\t2\nb\t3\t4", "c\t1\t2\r\n#x\n", "\n#\nc\t1\t2", "c\t1\n", "c\t1\t2\nd\t3\n", "c\t1\t2\t\n"},
		alphabet: "\t\t\t\n\n\r#,019-+.c"},
	{name: "newick", oracle: true,
		reader:  func(r io.Reader, limit int) Val { return wrapOk(collect(newick.Reader(r), limit, encNewick)) },
		file:    func(p string, limit int) Val { return wrapOk(collectRe(newick.File(p), limit, encNewick)) },
		openErr: vOk(oneErr),
		items: func(v Val) []Val {
			return v.At(1).List()
		},
		inOracle:  inputOracleVal,
		write:     func(rec Val, w io.Writer) error { return toNode(valTree(rec)).Write(w) },
		marshal:   func(rec Val) ([]byte, error) { return toNode(valTree(rec)).MarshalText() },
		recOracle: func(rec Val) Val { return treeOracleVal(valTree(rec)) },
		gen: func(c *Ctx, maxLen int, noLF bool) ([]byte, []Val, string) {
			var buf []byte
			var rv []Val
			for j := c.Choose(0, 1, 1, 2, 3, 4); j > 0; j-- {
				g := c.label(c.randomShape(1+c.Intn(c.Choose(1, 3, 6, 12)), c.Intn(5)))
				if noLF {
					g.each(func(x *gTree) { x.name = strings.ReplaceAll(x.name, "\n", "n") })
				}
				t := mustMarshal(g)
				if len(buf)+len(t)+1 > maxLen {
					continue
				}
				buf = append(buf, t...)
				buf = append(buf, '\n')
				rv = append(rv, treeVal(g))
			}
			return buf, rv, fmt.Sprintf("trees=%d", len(rv))
		},
		small:    []string{"(a,b)c:1;", "'a b';\n(,);", "(a:1.5,b);", "a;b;c;", "(a,b));", "'it''s';x", "a b;", "(a\n,\r\nb) ;"},
		alphabet: "(),:;;' \n\r_a1.e"},
}

func (f *streamFmt) readBytes(data []byte) Val {
	return f.reader(bytes.NewReader(slices.Clone(data)), len(data)+8)
}

// oracleOf returns the float oracle value for an input text (only for formats that carry one).
func (f *streamFmt) withOracle(v Val, texts ...[]byte) Val {
	if !f.oracle {
		return v
	}
	var all []byte
	for _, t := range texts {
		all = append(all, t...)
		all = append(all, '\n')
	}
	v.L = append(v.L, f.inOracle(all))
	return v
}

func toCRLF(data []byte) []byte { return bytes.ReplaceAll(data, []byte("\n"), []byte("\r\n")) }

func hasErrItem(items []Val) bool {
	for _, it := range items {
		if it.K != 'l' || len(it.L) == 0 || it.L[0].I != 0 {
			return true
		}
	}
	return false
}

func isCap(v Val) bool { return v.String() == vCap.String() }

var streamTmpDir = filepath.Join(os.TempDir(), fmt.Sprintf("verif-c06-%d", os.Getpid()))

func init() {
	// sam.Reader (records only) as a reader of its own: kinds c06_samrec, c07_read_samrec
	for _, f := range streamFmts {
		if f.name == "sam" {
			rec := *f
			rec.name, rec.readOnly, rec.extra = "samrec", true, nil
			rec.reader = func(r io.Reader, limit int) Val { return collect(sam.Reader(r), limit, encSam) }
			streamFmts = append(streamFmts, &rec)
			break
		}
	}
	for _, f := range streamFmts {
		f := f
		if f.fileRef == nil {
			f.fileRef = func(data []byte, limit int) Val { return f.reader(bytes.NewReader(data), limit) }
		}

		// ---- C06: Reader under a read schedule ---------------------------------
		f.kRead = register(&Kind{Name: "c06_" + f.name,
			Impl: func(in Val) Val {
				data := in.At(0).Bytes()
				r := &chunkReader{data: slices.Clone(data), chunks: in.At(1).IntList(), withEOF: in.At(2).Int() == 1}
				return f.reader(r, len(data)+8)
			},
			Oracle: func(in, out Val) string {
				// chunked delivery == whole delivery
				data := in.At(0).Bytes()
				whole := f.readBytes(data)
				if isCap(out) {
					return "iteration did not end"
				}
				if whole.String() != out.String() {
					return "items depend on the read schedule: in one piece " + clip(whole.String())
				}
				if f.extra != nil {
					r := &chunkReader{data: slices.Clone(data), chunks: in.At(1).IntList(), withEOF: in.At(2).Int() == 1}
					return f.extra(r, len(data)+8, out)
				}
				return ""
			}})

		if f.readOnly {
			registerFault(f)
			continue
		}

		// ---- C06: CRLF line terminators (well-formed inputs only) ---------------
		f.kCRLF = register(&Kind{Name: "c06_crlf_" + f.name,
			Impl: func(in Val) Val { return f.readBytes(toCRLF(in.At(0).Bytes())) },
			Oracle: func(in, out Val) string {
				lf := f.readBytes(in.At(0).Bytes())
				if isCap(out) || isCap(lf) {
					return "iteration did not end"
				}
				if hasErrItem(f.items(lf)) {
					return "harness: the LF input of a CRLF case is not well-formed"
				}
				if lf.String() != out.String() {
					return "CRLF variant decodes differently from the LF text: LF gives " + clip(lf.String())
				}
				return ""
			}})

		// ---- C06: File ------------------------------------------------------------
		f.kFile = register(&Kind{Name: "c06_file_" + f.name,
			Impl: func(in Val) Val {
				data, mode := in.At(0).Bytes(), in.At(1).Int()
				defer os.RemoveAll(streamTmpDir)
				if err := os.MkdirAll(streamTmpDir, 0o755); err != nil {
					panic(badCase("cannot create the temp dir: " + err.Error()))
				}
				path := filepath.Join(streamTmpDir, "in."+f.name)
				switch mode {
				case 0:
					if err := os.WriteFile(path, data, 0o644); err != nil {
						panic(badCase("cannot write the temp file: " + err.Error()))
					}
				case 1:
					path += ".gz"
					var zb bytes.Buffer
					zw := gzip.NewWriter(&zb)
					// several Write calls and a flush in the middle: more than one deflate block
					zw.Write(data[:len(data)/2])
					zw.Flush()
					zw.Write(data[len(data)/2:])
					if err := zw.Close(); err != nil {
						panic(badCase("gzip: " + err.Error()))
					}
					if err := os.WriteFile(path, zb.Bytes(), 0o644); err != nil {
						panic(badCase("cannot write the temp file: " + err.Error()))
					}
				case 2:
					path = filepath.Join(streamTmpDir, "no-such-dir", "missing."+f.name)
				default:
					panic(badCase("bad mode"))
				}
				return f.file(path, len(data)+8)
			},
			Oracle: func(in, out Val) string {
				data, mode := in.At(0).Bytes(), in.At(1).Int()
				if mode == 2 {
					if out.String() != f.openErr.String() {
						return "File on a missing path must yield exactly one error item"
					}
					return ""
				}
				want := f.fileRef(slices.Clone(data), len(data)+8)
				if out.String() != want.String() {
					return fmt.Sprintf("File (mode %d) differs from Reader on the same bytes: Reader gives %s", mode, clip(want.String()))
				}
				return ""
			}})

		registerFault(f)

		// ---- C07: Write into a failing writer ------------------------------------------
		f.kWrite = register(&Kind{Name: "c07_write_" + f.name,
			Impl: func(in Val) Val {
				w := &limitWriter{limit: in.At(1).Int()}
				err := f.write(in.At(0), w)
				if err != nil {
					return L(I(1), B(w.buf))
				}
				return L(I(0), B(w.buf))
			},
			Oracle: func(in, out Val) string {
				k := in.At(1).Int()
				m, merr := f.marshal(in.At(0))
				failed := out.At(0).Int() != 0
				emitted := out.At(1).Bytes()
				if merr != nil { // bed: N outside 3..12
					if !failed {
						return "Write returned nil for a record MarshalText refuses"
					}
					if len(emitted) != 0 {
						return "Write emitted bytes for a record MarshalText refuses"
					}
					return ""
				}
				if k < len(m) && !failed {
					return fmt.Sprintf("the writer failed after %d of %d bytes but Write returned nil", k, len(m))
				}
				if k >= len(m) && failed {
					return fmt.Sprintf("the writer accepted all %d bytes (limit %d) but Write returned an error", len(m), k)
				}
				if !bytes.Equal(emitted, m[:min(k, len(m))]) {
					return "the bytes that reached the writer are not the leading bytes of MarshalText"
				}
				// a legal io.Writer may accept every byte of a call and still return an error
				if k < len(m) {
					if err := f.write(in.At(0), &fullButFailingWriter{failAt: k}); err == nil {
						return fmt.Sprintf("the writer reported an error (having accepted the bytes) at byte %d of %d but Write returned nil", k, len(m))
					}
				}
				return ""
			}})
	}

	registerProp("C06", "per format (fasta, fastq, sam ReaderHeader, bed, newick): inputs = writer output of the family generators (LF, CRLF, no final newline), mutated texts (byte edits over the format's delimiter alphabet) and tiny hand-written texts; schedules = one byte per Read, every 2-partition, random partitions with zero-length reads, chunk sizes around bufio's 4096 for long inputs, the last data together with io.EOF, and ALL 2^(n-1) partitions of the tiny inputs (n <= 8 quick, <= 12 thorough); CRLF variant of every well-formed input; File on a plain temp file, on a gzip file named *.gz and on a missing path (sam: File and FileHeader). non-trivial = a schedule with at least two reads on an input of at least 2 bytes, a well-formed CRLF input with at least one LF, a File case on a non-empty existing file", func(c *Ctx) {
		for _, f := range streamFmts {
			runStreamC06(c, f)
		}
	})
	registerProp("C07", "per format: well-formed inputs (writer output of the family generators, <= 400 bytes; also CRLF and no-final-newline variants) with the fault injected at EVERY offset k in 0..|w| x {fail once, fail forever}; mutated inputs at random offsets (model agreement and 'ends with an error'); for each record of the family generators Write into a writer that accepts k bytes for EVERY k in 0..len(MarshalText)+1 (bed: also N outside 3..12). non-trivial = a fault strictly inside a non-empty input / a limit below the marshalled length", func(c *Ctx) {
		for _, f := range streamFmts {
			runStreamC07(c, f)
		}
	})
}

// ---- C07: Reader on a failing stream -----------------------------------------
func registerFault(f *streamFmt) {
	runFault := func(data []byte, k int, forever bool) Val {
		if k < 0 || k > len(data) {
			panic(badCase("fault offset outside the input"))
		}
		return f.reader(&faultReader{data: slices.Clone(data[:k]), forever: forever}, len(data)+8)
	}
	f.kFault = register(&Kind{Name: "c07_read_" + f.name,
		Impl: func(in Val) Val { return runFault(in.At(0).Bytes(), in.At(1).Int(), in.At(2).Int() == 1) },
		Oracle: func(in, out Val) string {
			data, k, forever := in.At(0).Bytes(), in.At(1).Int(), in.At(2).Int() == 1
			if isCap(out) {
				return "the iteration does not end on a failing stream (item cap hit)"
			}
			items := f.items(out)
			if len(items) == 0 {
				return "a failing stream ended like a clean end of data (no items, no error)"
			}
			if last := items[len(items)-1]; len(last.L) != 1 || last.L[0].I != 1 {
				return "a failing stream ended like a clean end of data (the last item is not an error)"
			}
			if other := runFault(data, k, !forever); other.String() != out.String() {
				return "fail-once and fail-forever streams give different items"
			}
			// the io.Reader contract allows the last bytes to arrive together with the
			// error, and reads of zero bytes: the items must be the same
			if tg := f.reader(&faultReader{data: slices.Clone(data[:k]), forever: forever, together: true}, len(data)+8); tg.String() != out.String() {
				return "a stream that returns its last bytes together with the error gives different items"
			}
			if tg := f.reader(&faultReader{data: slices.Clone(data[:k]), forever: forever, together: true, chunk: 7}, len(data)+8); tg.String() != out.String() {
				return "a stream read in 7-byte pieces whose last piece comes with the error gives different items"
			}
			// whatever the error is: also one that wraps io.EOF, io.ErrUnexpectedEOF itself
			for _, e := range []error{fmt.Errorf("frame 7: reading header: %w", io.EOF), io.ErrUnexpectedEOF, io.ErrClosedPipe} {
				if tg := f.reader(&faultReader{data: slices.Clone(data[:k]), forever: forever, err: e}, len(data)+8); tg.String() != out.String() {
					return fmt.Sprintf("a stream failing with the error %q gives different items than one failing with another error", e)
				}
			}
			// a reader that recovers after its one failure and goes on delivering the rest: the
			// iteration ended with the error item, so nothing more may be read or delivered
			if rc := f.reader(&faultReader{data: slices.Clone(data[:k]), resume: slices.Clone(data[k:])}, 2*len(data)+8); rc.String() != out.String() {
				return "a stream that fails once and then recovers gives different items: the read error was not the end of the iteration"
			}
			if f.extra != nil {
				if msg := f.extra(&faultReader{data: slices.Clone(data[:k]), forever: forever}, len(data)+8, out); msg != "" {
					return msg
				}
			}
			// the same fault seen through File: a gzip file cut short is a stream that fails
			// (sampled: one offset in eight)
			if f.file != nil && !f.readOnly && len(data) > 0 && (k+len(data))%8 == 3 {
				if msg := truncatedGzMsg(f, data, k); msg != "" {
					return msg
				}
			}
			full := f.readBytes(data)
			if isCap(full) || hasErrItem(f.items(full)) {
				return "" // not a well-formed input: only "ends with an error, finitely"
			}
			rs := f.items(full)
			j := len(items) - 1
			if hasErrItem(items[:j]) {
				return "more than one error item"
			}
			if j > len(rs) {
				return fmt.Sprintf("%d records delivered before the fault, the fault-free decode has only %d", j, len(rs))
			}
			for i := 0; i < j; i++ {
				if items[i].String() != rs[i].String() {
					return fmt.Sprintf("record %d delivered before the fault differs from record %d of the fault-free decode (built from a truncated line?): %s", i, i, clip(items[i].String()))
				}
			}
			// a fault strictly after the whole input loses nothing that was terminated
			return ""
		}})
}

// ---- C06 generator ------------------------------------------------------------------

func (f *streamFmt) runSched(c *Ctx, data []byte, sched []int, withEOF bool, strata ...string) {
	in := L(B(data), IL(sched), Bool(withEOF))
	in = f.withOracle(in, data)
	reads := 0
	left := len(data)
	for _, s := range sched {
		if left > 0 {
			reads++
		}
		left -= min(s, left)
	}
	if left > 0 {
		reads++
	}
	st := append([]string{f.name + "/sched"}, strata...)
	if withEOF {
		st = append(st, "withEOF")
	}
	c.Run(f.kRead, in, len(data) >= 2 && reads >= 2, st...)
}

func randPartition(c *Ctx, n int, zeros bool) []int {
	var sched []int
	for n > 0 {
		if zeros && c.Intn(5) == 0 {
			sched = append(sched, 0)
			continue
		}
		k := 1 + c.Intn(c.Choose(1, 2, 4, 16, 64, n))
		k = min(k, n)
		sched = append(sched, k)
		n -= k
	}
	if zeros && c.Intn(2) == 0 {
		sched = append(sched, 0)
	}
	return sched
}

func (f *streamFmt) mutate(c *Ctx, data []byte) []byte {
	d := slices.Clone(data)
	for e := 1 + c.Intn(3); e > 0; e-- {
		b := f.alphabet[c.Intn(len(f.alphabet))]
		pos := c.Intn(len(d) + 1)
		switch c.Intn(3) {
		case 0:
			d = slices.Insert(d, pos, b)
		case 1:
			if pos < len(d) {
				d = slices.Delete(d, pos, pos+1)
			}
		default:
			if pos < len(d) {
				d[pos] = b
			}
		}
	}
	return d
}

func allPartitions(n int, f func(sched []int)) {
	if n == 0 {
		f(nil)
		return
	}
	for mask := 0; mask < 1<<(n-1); mask++ {
		var sched []int
		run := 0
		for i := 0; i < n; i++ {
			run++
			if i == n-1 || mask&(1<<i) != 0 {
				sched = append(sched, run)
				run = 0
			}
		}
		f(sched)
	}
}

func runStreamC06(c *Ctx, f *streamFmt) {
	// 1. all partitions of tiny inputs
	maxAll := c.Pick(8, 12)
	tiny := [][]byte{}
	for _, s := range f.small {
		tiny = append(tiny, []byte(s))
	}
	for i := 0; i < c.Pick(3, 12); i++ { // prefixes of well-formed texts
		w, _, _ := f.gen(c, 200, false)
		if len(w) > 0 {
			tiny = append(tiny, w[:min(len(w), 1+c.Intn(maxAll))])
		}
	}
	for _, d := range tiny {
		if len(d) > maxAll {
			// too long for this tier: every 2-partition and 3-partition with a single middle byte
			for i := 0; i <= len(d); i++ {
				f.runSched(c, d, []int{i}, i%2 == 0, "tiny/2-partition")
				if i+1 <= len(d) {
					f.runSched(c, d, []int{i, 1}, i%2 == 1, "tiny/3-partition")
				}
			}
			continue
		}
		cnt := 0
		allPartitions(len(d), func(sched []int) {
			f.runSched(c, d, sched, cnt%2 == 0, "tiny/all-partitions")
			cnt++
		})
	}
	c.Exhaustive(fmt.Sprintf("%s: all 2^(n-1) read schedules of every tiny input with n <= %d", f.name, maxAll))

	// 2. well-formed inputs and their variants
	nIn := c.Pick(14, 120)
	for i := 0; i < nIn; i++ {
		w, _, st := f.gen(c, c.Pick(300, 1500), false)
		variant := "lf"
		d := w
		switch c.Intn(5) {
		case 0:
			d, variant = toCRLF(w), "crlf"
		case 1:
			d, variant = bytes.TrimSuffix(w, []byte("\n")), "no-final-newline"
		case 2:
			if len(w) > 0 {
				d, variant = f.mutate(c, w), "mutated"
			}
		}
		vs := "input/" + variant
		ones := make([]int, len(d))
		for j := range ones {
			ones[j] = 1
		}
		f.runSched(c, d, ones, false, "one-byte-reads", vs, st)
		f.runSched(c, d, ones, true, "one-byte-reads", vs)
		f.runSched(c, d, nil, true, "one-piece", vs)
		f.runSched(c, d, nil, false, "one-piece", vs)
		// every 2-partition
		step := 1
		if len(d) > c.Pick(160, 2000) {
			step = 1 + len(d)/c.Pick(160, 2000)
		}
		for k := 0; k <= len(d); k += step {
			f.runSched(c, d, []int{k}, k%2 == 0, "2-partition", vs)
		}
		for j := 0; j < c.Pick(6, 20); j++ {
			f.runSched(c, d, randPartition(c, len(d), j%2 == 0), c.Intn(2) == 0, "random-partition", vs)
		}
		f.runSched(c, d, []int{0, 0, 0, len(d) / 2, 0, 0}, true, "zero-length-reads", vs)
	}

	// 3. mutated / arbitrary bytes, random schedules
	for i := 0; i < c.Pick(150, 2000); i++ {
		var d []byte
		strat := "input/mutated"
		if c.Intn(3) == 0 {
			d = c.RandBytes(c.Intn(40), []byte(f.alphabet))
			strat = "input/alphabet-soup"
		} else {
			w, _, _ := f.gen(c, 200, false)
			d = f.mutate(c, w)
		}
		f.runSched(c, d, randPartition(c, len(d), true), c.Intn(2) == 0, "random-partition", strat)
		if len(d) > 0 {
			k := c.Intn(len(d) + 1)
			f.runSched(c, d, []int{k, 1}, c.Intn(2) == 0, "3-partition", strat)
		}
	}

	// 4a. one long line (past bufio's 4096-byte buffer, past 64 KiB) between short
	// ones: readers that only cope with lines that fit a buffer break here, and
	// how they break can depend on the read schedule
	for _, ln := range []int{4000, 4095, 4096, 4097, 5000, 8192, 70000} {
		if f.name == "newick" && ln > 8192 {
			continue // the Newick model's tokeniser is quadratic in the token length
		}
		d := streamLongLine(c, f.name, ln)
		if d == nil {
			continue
		}
		f.runSched(c, d, nil, false, "whole", "input/long-line")
		f.runSched(c, d, []int{4096}, true, "bufio-4096", "input/long-line")
		f.runSched(c, d, randPartition(c, len(d), true), false, "random-partition", "input/long-line")
		if ln <= 5000 {
			ones := make([]int, len(d))
			for i := range ones {
				ones[i] = 1
			}
			f.runSched(c, d, ones, false, "one-byte", "input/long-line")
		}
		if !f.readOnly {
			fileIn := f.withOracle(L(B(d), I(c.Intn(2))), d)
			c.Run(f.kFile, fileIn, true, f.name+"/file-long-line")
		}
	}

	// 4b. many small records, stream longer than the readers' buffers: records
	// yielded early are retained by the harness until the end of the iteration
	for _, total := range []int{6000, 40000, 140000} {
		if f.name == "newick" && total > 40000 {
			continue
		}
		d := manyRecordsText(c, f.name, total)
		if d == nil {
			continue
		}
		f.runSched(c, d, nil, false, "whole", "input/many-records")
		f.runSched(c, d, []int{4096}, true, "bufio-4096", "input/many-records")
		if total <= 40000 {
			ones := make([]int, len(d))
			for i := range ones {
				ones[i] = 1
			}
			f.runSched(c, d, ones, false, "one-byte", "input/many-records")
		}
		if !f.readOnly {
			c.Run(f.kFile, f.withOracle(L(B(d), I(1)), d), true, f.name+"/file-many-records")
		}
	}

	// 4. long inputs: chunk sizes around bufio's 4096-byte buffer
	for i := 0; i < c.Pick(2, 8); i++ {
		var d []byte
		for len(d) < 9000 {
			w, _, _ := f.gen(c, 3000, false)
			d = append(d, w...)
			if len(w) == 0 {
				d = append(d, f.small[0]...)
			}
		}
		for _, sched := range [][]int{{4096}, {4097}, {4095}, {4095, 1}, {4096, 1}, {4096, 4096}, {4097, 4095}, {1, 4096}, {4095, 2, 4095}, {8191, 1}, {8192}, {8193}} {
			f.runSched(c, d, sched, i%2 == 0, "bufio-4096", "input/long")
		}
		big := make([]int, 0, 16)
		for left := len(d); left > 0; left -= 4097 {
			big = append(big, 4097)
		}
		f.runSched(c, d, big, true, "bufio-4096", "input/long")
		f.runSched(c, d, randPartition(c, len(d), true), false, "random-partition", "input/long")
	}

	if f.readOnly {
		return
	}

	// 5. CRLF variants of well-formed inputs
	for i := 0; i < c.Pick(120, 1500); i++ {
		w, _, st := f.gen(c, c.Pick(400, 3000), true)
		in := f.withOracle(L(B(w)), w, toCRLF(w))
		c.Run(f.kCRLF, in, bytes.IndexByte(w, '\n') >= 0, f.name+"/crlf", st)
		// the same text with blank lines (and, for BED, comment lines) between the
		// lines: still well-formed for the formats that skip them, and the CRLF
		// variant then contains lines that consist of a lone CR
		if f.name == "bed" || f.name == "sam" || f.name == "fasta" {
			var w2 []byte
			if c.Intn(3) == 0 {
				w2 = append(w2, '\n')
			}
			for _, line := range bytes.SplitAfter(w, []byte("\n")) {
				w2 = append(w2, line...)
				if len(line) > 0 && line[len(line)-1] == '\n' {
					switch c.Intn(4) {
					case 0:
						w2 = append(w2, '\n')
					case 1:
						if f.name == "bed" {
							w2 = append(w2, "# a comment\tline\n"...)
						} else {
							w2 = append(w2, "\n\n"...)
						}
					}
				}
			}
			if f.name == "fasta" && len(w2) > 0 && w2[0] == '\n' {
				w2 = w2[1:] // blank lines before the first record are outside the FASTA domain
			}
			in2 := f.withOracle(L(B(w2)), w2, toCRLF(w2))
			c.Run(f.kCRLF, in2, bytes.IndexByte(w2, '\n') >= 0, f.name+"/crlf-blank-lines", st)
		}
	}

	// 6. File
	fileCase := func(d []byte, mode int, strat string) {
		in := f.withOracle(L(B(d), I(mode)), d)
		c.Run(f.kFile, in, mode != 2 && len(d) > 0, f.name+"/file", fmt.Sprintf("file/mode=%d", mode), strat)
	}
	fileCase(nil, 0, "file/empty")
	fileCase(nil, 1, "file/empty")
	fileCase(nil, 2, "file/empty")
	for _, s := range f.small {
		fileCase([]byte(s), 0, "file/tiny")
		fileCase([]byte(s), 1, "file/tiny")
	}
	// files that start with bytes other tools sniff (byte-order marks, gzip magic in a
	// plain file, a shebang): File must hand them to the reader untouched
	for _, pre := range []string{"\xef\xbb\xbf", "\xff\xfe", "\xfe\xff", "\x1f\x8b", "#!", "\x00"} {
		w, _, _ := f.gen(c, 600, false)
		d := append([]byte(pre), w...)
		fileCase(d, 0, "file/magic-prefix")
		if pre != "\x1f\x8b" {
			fileCase(d, 1, "file/magic-prefix")
		}
		f.runSched(c, d, nil, false, "whole", "input/magic-prefix")
	}
	if d := streamLongLine(c, f.name, 40); d != nil && f.name != "newick" {
		// the first field of the first record starts with a BOM
		i := bytes.IndexAny(d, "ar@c")
		if f.name == "fasta" || f.name == "fastq" {
			i = 1
		} else if f.name == "bed" {
			i = 0
		} else {
			i = bytes.Index(d, []byte("\na\t")) + 1
		}
		if i >= 0 && i <= len(d) {
			d2 := append(append(append([]byte{}, d[:i]...), "\xef\xbb\xbf"...), d[i:]...)
			fileCase(d2, 0, "file/bom-in-first-field")
			fileCase(d2, 1, "file/bom-in-first-field")
		}
	}
	for i := 0; i < c.Pick(60, 600); i++ {
		w, _, _ := f.gen(c, c.Pick(600, 4000), false)
		strat := "file/well-formed"
		switch c.Intn(4) {
		case 0:
			w, strat = toCRLF(w), "file/crlf"
		case 1:
			if len(w) > 0 {
				w, strat = f.mutate(c, w), "file/mutated"
			}
		}
		fileCase(w, 0, strat)
		fileCase(w, 1, strat)
		if i%10 == 0 {
			fileCase(w, 2, strat)
		}
	}
	for i := 0; i < c.Pick(1, 4); i++ { // larger than any buffer on the way
		var d []byte
		for len(d) < 20000 {
			w, _, _ := f.gen(c, 3000, false)
			d = append(d, w...)
			if len(w) == 0 {
				d = append(d, f.small[0]...)
			}
		}
		fileCase(d, 0, "file/long")
		fileCase(d, 1, "file/long")
	}
}

// ---- C07 generator ------------------------------------------------------------------

func runStreamC07(c *Ctx, f *streamFmt) {
	faultCase := func(d []byte, k int, forever bool, strata ...string) {
		in := L(B(d), I(k), Bool(forever))
		in = f.withOracle(in, d[:k])
		st := append([]string{f.name + "/read-fault"}, strata...)
		if forever {
			st = append(st, "fault/forever")
		} else {
			st = append(st, "fault/once")
		}
		switch {
		case k == 0:
			st = append(st, "offset/0")
		case k == len(d):
			st = append(st, "offset/end")
		default:
			st = append(st, "offset/inside")
		}
		c.Run(f.kFault, in, len(d) > 0 && k < len(d), st...)
	}
	sweep := func(d []byte, strata ...string) {
		for k := 0; k <= len(d); k++ {
			faultCase(d, k, false, strata...)
			faultCase(d, k, true, strata...)
		}
	}
	// 1. every offset of well-formed inputs
	for _, s := range f.small {
		sweep([]byte(s), "input/tiny")
	}
	nIn := c.Pick(12, 150)
	for i := 0; i < nIn; i++ {
		w, _, st := f.gen(c, c.Pick(400, 1200), false)
		variant := "input/lf"
		switch c.Intn(6) {
		case 0:
			w, variant = toCRLF(w), "input/crlf"
		case 1:
			w, variant = bytes.TrimSuffix(w, []byte("\n")), "input/no-final-newline"
		}
		sweep(w, variant, st)
	}
	c.Exhaustive(f.name + ": every fault offset 0..|w| x {once, forever} of each well-formed input")
	// 2. mutated inputs, random offsets
	for i := 0; i < c.Pick(150, 2000); i++ {
		w, _, _ := f.gen(c, 300, false)
		d := f.mutate(c, w)
		faultCase(d, c.Intn(len(d)+1), c.Intn(2) == 0, "input/mutated")
	}
	// 3. a long input: faults around bufio's buffer boundary
	for i := 0; i < c.Pick(1, 4); i++ {
		var d []byte
		for len(d) < 9000 {
			w, _, _ := f.gen(c, 3000, false)
			d = append(d, w...)
			if len(w) == 0 {
				d = append(d, f.small[0]...)
			}
		}
		for _, k := range []int{4095, 4096, 4097, 8191, 8192, 8193, len(d) - 1, len(d)} {
			faultCase(d, k, k%2 == 0, "input/long")
		}
	}

	// 3b. one long line between short records: faults inside the long line, at the
	// buffer boundaries and near the end (a reader that assembles long lines piecewise
	// can lose the error or deliver a record built from the truncated line)
	for _, ln := range []int{5000, 9000, 70000} {
		if f.name == "newick" && ln > 9000 {
			continue
		}
		d := streamLongLine(c, f.name, ln)
		if d == nil {
			continue
		}
		ks := map[int]bool{}
		for _, b := range []int{4096, 8192, 65536} {
			for _, dk := range []int{-1, 0, 1, 2, 100} {
				ks[b+dk] = true
			}
		}
		for _, dk := range []int{0, 1, 2, 3, 10, ln / 2} {
			ks[len(d)-dk] = true
		}
		for i := 0; i < 12; i++ {
			ks[c.Intn(len(d)+1)] = true
		}
		for _, k := range sortedKeys(ks) {
			if k >= 0 && k <= len(d) {
				faultCase(d, k, k%2 == 0, "input/long-line")
			}
		}
	}

	if f.readOnly {
		return
	}

	// 4b. writers with long records: limits around the buffer sizes a buffering
	// writer would use and just before the end of the output
	for _, ln := range []int{5000, 70000} {
		if f.name == "newick" && ln > 9000 {
			continue
		}
		long := c.RandBytes(ln, []byte("ACGTacgt"))
		var rec Val
		switch f.name {
		case "fasta":
			rec = vFasta([]byte("long"), long)
		case "fastq":
			rec = fqRecVal([]byte("long"), long, bytes.Repeat([]byte("I"), ln))
		case "sam":
			rec = samVal(&sam.SAM{Qname: "long", Flag: 4, Rname: "*", Cigar: "*", Rnext: "*", Seq: string(long), Qual: "*", Tags: map[string]any{"NM": 1}})
		case "bed":
			rec = bedVal(&bed.BED{N: 4, Chrom: "c", ChromStart: 1, ChromEnd: 2, Name: string(long)})
		case "newick":
			rec = treeVal(&gTree{name: "r", kids: []*gTree{{name: string(long), dist: 1.5}, {name: "x y"}}})
		default:
			continue
		}
		m, err := f.marshal(rec)
		if err != nil {
			continue
		}
		ks := map[int]bool{0: true, 1: true}
		for _, b := range []int{4096, 8192, 65536} {
			for _, dk := range []int{-1, 0, 1} {
				ks[b+dk] = true
			}
		}
		for _, dk := range []int{-1, 0, 1, 2, 3, 100, 1000, 4095, 4096, 4097} {
			ks[len(m)-dk] = true
		}
		for i := 0; i < 10; i++ {
			ks[c.Intn(len(m)+1)] = true
		}
		for _, k := range sortedKeys(ks) {
			if k < 0 || k > len(m)+1 {
				continue
			}
			in := L(rec, I(k))
			if f.oracle {
				in.L = append(in.L, f.recOracle(rec))
			}
			c.Run(f.kWrite, in, k < len(m), f.name+"/write-fault", "write/long-record")
		}
	}

	// 4. writers: every limit 0..len+1 for each record
	writeSweep := func(rec Val, strata ...string) {
		m, err := f.marshal(rec)
		top := len(m) + 1
		if err != nil {
			top = 3
		}
		for k := 0; k <= top; k++ {
			in := L(rec, I(k))
			if f.oracle {
				in.L = append(in.L, f.recOracle(rec))
			}
			st := append([]string{f.name + "/write-fault"}, strata...)
			c.Run(f.kWrite, in, err == nil && k < len(m), st...)
		}
	}
	nRec := 0
	for nRec < c.Pick(25, 300) {
		_, recs, st := f.gen(c, c.Pick(400, 1500), false)
		for _, r := range recs {
			writeSweep(r, st)
			nRec++
		}
	}
	if f.name == "bed" {
		for _, n := range []int{-1, 0, 2, 13, 100} {
			b := c.bedRecord(12)
			b.N = n
			writeSweep(bedVal(b), "write/N-outside")
		}
		for n := 3; n <= 12; n++ {
			writeSweep(bedVal(c.bedRecord(n)), fmt.Sprintf("write/N=%d", n))
		}
	}
	if f.name == "fasta" {
		for _, l := range []int{0, 1, 79, 80, 81, 160, 161} {
			writeSweep(vFasta([]byte("n"), c.fastaBytes(l, "\r\n>", true)), "write/boundary80")
		}
	}
	c.Exhaustive(f.name + ": every writer limit 0..len(MarshalText)+1 of each record")
}

// streamLongLine returns a well-formed file of the format with one line of about
// ln bytes between two short records.
func streamLongLine(c *Ctx, name string, ln int) []byte {
	long := c.RandBytes(ln, []byte("ACGTacgtNn"))
	var buf bytes.Buffer
	switch name {
	case "fasta":
		(&fasta.Fasta{Name: []byte("a"), Sequence: []byte("ACGT")}).Write(&buf)
		(&fasta.Fasta{Name: long, Sequence: []byte("AC")}).Write(&buf)
		(&fasta.Fasta{Name: []byte("b"), Sequence: []byte("GT")}).Write(&buf)
	case "fastq":
		(&fastq.Fastq{Name: []byte("a"), Sequence: []byte("AC"), Quals: []byte("II")}).Write(&buf)
		(&fastq.Fastq{Name: []byte("long"), Sequence: long, Quals: bytes.Repeat([]byte("I"), ln)}).Write(&buf)
		(&fastq.Fastq{Name: []byte("b"), Sequence: []byte("G"), Quals: []byte("!")}).Write(&buf)
	case "sam", "samrec":
		buf.WriteString("@HD\tVN:1.6\n")
		mk := func(q string, seq []byte) *sam.SAM {
			return &sam.SAM{Qname: q, Flag: 4, Rname: "*", Cigar: "*", Rnext: "*", Seq: string(seq), Qual: "*",
				Tags: map[string]any{"NM": 3, "XZ": "after"}}
		}
		mk("a", []byte("AC")).Write(&buf)
		mk("long", long).Write(&buf)
		buf.WriteString("@CO\t" + string(long) + "\n")
		mk("b", []byte("G")).Write(&buf)
	case "bed":
		(&bed.BED{N: 4, Chrom: "c", ChromStart: 1, ChromEnd: 2, Name: "n"}).Write(&buf)
		(&bed.BED{N: 4, Chrom: "c", ChromStart: 3, ChromEnd: 4, Name: string(long)}).Write(&buf)
		(&bed.BED{N: 4, Chrom: "d", ChromStart: 5, ChromEnd: 6, Name: "m"}).Write(&buf)
	case "newick":
		(&newick.Node{Name: "r", Children: []*newick.Node{{Name: string(long), Distance: 1.5}, {Name: "x y"}}}).Write(&buf)
		buf.WriteString("\n(a,b)c;\n")
	default:
		return nil
	}
	return buf.Bytes()
}

func sortedKeys(m map[int]bool) []int {
	ks := make([]int, 0, len(m))
	for k := range m {
		ks = append(ks, k)
	}
	sort.Ints(ks)
	return ks
}

// truncatedGzMsg writes data gzip-compressed to a temp file named *.gz, cuts the file
// after a fraction k/len(data) of its bytes and reads it with File: the iteration must
// end with an error (compress/gzip reports the truncation as a read error).
func truncatedGzMsg(f *streamFmt, data []byte, k int) string {
	var zb bytes.Buffer
	zw := gzip.NewWriter(&zb)
	zw.Write(data)
	zw.Close()
	z := zb.Bytes()
	cut := len(z) * k / (len(data) + 1)
	if cut >= len(z) {
		cut = len(z) - 1
	}
	dir, err := os.MkdirTemp("", "verif-c07-")
	if err != nil {
		panic(badCase("cannot create a temp dir"))
	}
	defer os.RemoveAll(dir)
	path := filepath.Join(dir, "cut."+f.name+".gz")
	if err := os.WriteFile(path, z[:cut], 0o644); err != nil {
		panic(badCase("cannot write the temp file"))
	}
	out := f.file(path, len(data)+8)
	lists := []Val{out}
	if f.name == "sam" {
		lists = out.List() // [File FileHeader]
	}
	for _, l := range lists {
		if isCap(l) {
			return "File on a truncated .gz file: the iteration does not end"
		}
		items := f.items(l)
		if f.name == "sam" {
			items = l.List()
		}
		if len(items) == 0 {
			return "File on a truncated .gz file ended like a clean end of data (no items, no error)"
		}
		if last := items[len(items)-1]; len(last.L) != 1 || last.L[0].I != 1 {
			return "File on a truncated .gz file ended like a clean end of data (the last item is not an error)"
		}
	}
	return ""
}
