package main

// formats/smtext (ReadNCBI) and align.SubstitutionMatrix (Symmetrical, GoString):
// property C20. Kinds mirror coq/Corr/SmtextCorr.v.
//
// An entry is [i<k0> i<k1> x<canonical score text>]; a matrix is shown as its
// entries sorted by key.

import (
	"bytes"
	"fmt"
	"go/format"
	"io"
	"math"
	"os"
	"os/exec"
	"path/filepath"
	"reflect"
	"sort"
	"strconv"
	"strings"

	"github.com/fluhus/biostuff/align"
	"github.com/fluhus/biostuff/formats/smtext"
)

type smEntry struct {
	a, b byte
	x    float64
}

func smSortedKeys(m map[[2]byte]float64) [][2]byte {
	keys := make([][2]byte, 0, len(m))
	for k := range m {
		keys = append(keys, k)
	}
	sort.Slice(keys, func(i, j int) bool {
		if keys[i][0] != keys[j][0] {
			return keys[i][0] < keys[j][0]
		}
		return keys[i][1] < keys[j][1]
	})
	return keys
}

// smMatrixVal: the entries sorted by key; zeroCanon shows -0 as 0.
func smMatrixVal(m map[[2]byte]float64, zeroCanon bool) Val {
	r := Val{K: 'l'}
	for _, k := range smSortedKeys(m) {
		x := m[k]
		if zeroCanon && x == 0 {
			x = 0
		}
		r.L = append(r.L, L(I(int(k[0])), I(int(k[1])), S(canonF(x))))
	}
	return r
}

func smDecodeEntries(v Val) []smEntry {
	var es []smEntry
	for _, e := range v.List() {
		x, err := strconv.ParseFloat(e.At(2).Str(), 64)
		if err != nil {
			panic(badCase("score text: " + e.String()))
		}
		es = append(es, smEntry{byte(e.At(0).Int()), byte(e.At(1).Int()), x})
	}
	return es
}

func smEntriesVal(es []smEntry) Val {
	r := Val{K: 'l'}
	for _, e := range es {
		r.L = append(r.L, L(I(int(e.a)), I(int(e.b)), S(canonF(e.x))))
	}
	return r
}

func smMatrix(es []smEntry) align.SubstitutionMatrix {
	m := align.SubstitutionMatrix{}
	for _, e := range es {
		m[[2]byte{e.a, e.b}] = e.x
	}
	return m
}

func smBits(m map[[2]byte]float64) map[[2]byte]uint64 {
	r := make(map[[2]byte]uint64, len(m))
	for k, v := range m {
		r[k] = math.Float64bits(v)
	}
	return r
}

func isErrOut(out Val) bool { return out.K == 'l' && len(out.L) == 1 && out.L[0].I == 1 }

// ---- ncbi_read ------------------------------------------------------------------

// refReadNCBI is an independent reading of the NCBI table format as the
// package documentation and the property describe it (lines; '#' comments and
// empty lines skipped; first other line = column labels; label + one score per
// column), written without bufio/regexp: rows are collected first and the
// matrix is assembled at the end.
func refReadNCBI(data []byte, termErr bool) (map[[2]byte]float64, bool) {
	var isSp [256]bool
	for _, b := range []byte{'\t', '\n', '\f', '\r', ' '} {
		isSp[b] = true
	}
	tokens := func(ln string) []string {
		var r []string
		i := 0
		for i < len(ln) {
			for i < len(ln) && isSp[ln[i]] {
				i++
			}
			j := i
			for j < len(ln) && !isSp[ln[j]] {
				j++
			}
			if j > i {
				r = append(r, ln[i:j])
			}
			i = j
		}
		return r
	}
	label := func(t string) (byte, bool) {
		if len(t) != 1 {
			return 0, false
		}
		if t[0] == '*' {
			return 255, true
		}
		return t[0], true
	}
	lines := strings.Split(string(data), "\n")
	if lines[len(lines)-1] == "" {
		lines = lines[:len(lines)-1]
	}
	type row struct {
		lab byte
		xs  []float64
	}
	var cols []byte
	var rows []row
	for _, ln := range lines {
		if len(ln) >= 65536 { // bufio.Scanner's default token limit
			return nil, false
		}
		ln = strings.TrimSuffix(ln, "\r")
		if ln == "" || ln[0] == '#' {
			continue
		}
		toks := tokens(ln)
		if len(cols) == 0 {
			for _, t := range toks {
				b, ok := label(t)
				if !ok {
					return nil, false
				}
				cols = append(cols, b)
			}
			continue
		}
		if len(toks) != len(cols)+1 {
			return nil, false
		}
		lab, ok := label(toks[0])
		if !ok {
			return nil, false
		}
		r := row{lab: lab}
		for _, t := range toks[1:] {
			x, err := strconv.ParseFloat(t, 64)
			if err != nil {
				return nil, false
			}
			r.xs = append(r.xs, x)
		}
		rows = append(rows, r)
	}
	if termErr {
		return nil, false
	}
	m := map[[2]byte]float64{}
	for _, r := range rows {
		for j, x := range r.xs {
			m[[2]byte{r.lab, cols[j]}] = x
		}
	}
	return m, true
}

var kNcbiRead = register(&Kind{Name: "ncbi_read",
	// in = [bytes term foracle truth]; truth = [] (none) | [i1] (must be rejected) | [i0 entries]
	Impl: func(in Val) Val {
		data := in.At(0).Bytes()
		var r io.Reader = bytes.NewReader(data)
		if in.At(1).Int() == 1 {
			r = &faultReader{data: data, forever: true}
		}
		m, err := smtext.ReadNCBI(r)
		if err != nil {
			if m != nil {
				return L(I(3), S("a matrix was returned together with an error"))
			}
			return vErr
		}
		return vOk(smMatrixVal(m, false))
	},
	Oracle: func(in, out Val) string {
		data := in.At(0).Bytes()
		want, ok := refReadNCBI(data, in.At(1).Int() == 1)
		if !ok {
			if !isErrOut(out) {
				return "the reference reader rejects this input, ReadNCBI gave " + clip(out.String())
			}
		} else if out.String() != vOk(smMatrixVal(want, false)).String() {
			return "differs from the reference reader: want " + clip(smMatrixVal(want, false).String()) + " got " + clip(out.String())
		}
		truth := in.At(3).List()
		if len(truth) == 0 {
			return ""
		}
		if truth[0].Int() == 1 {
			if !isErrOut(out) {
				return "corrupted table was not rejected: " + clip(out.String())
			}
			return ""
		}
		if out.String() != vOk(truth[1]).String() {
			return "matrix differs from the generated table: want " + clip(truth[1].String()) + " got " + clip(out.String())
		}
		return ""
	}})

// ---- matrix_symmetrical ---------------------------------------------------------

var kMatSym = register(&Kind{Name: "matrix_symmetrical",
	// in = [entries]
	Impl: func(in Val) Val {
		m := smMatrix(smDecodeEntries(in.At(0)))
		before := smBits(m)
		var res align.SubstitutionMatrix
		panicked := func() (p bool) {
			defer func() {
				if recover() != nil {
					p = true
				}
			}()
			res = m.Symmetrical()
			return false
		}()
		if !reflect.DeepEqual(before, smBits(m)) {
			return L(I(3), S("receiver modified"))
		}
		if panicked {
			return vPanic
		}
		if reflect.ValueOf(res).Pointer() == reflect.ValueOf(m).Pointer() {
			return L(I(3), S("result is the receiver, not a new matrix"))
		}
		return vOk(smMatrixVal(res, true))
	},
	Oracle: func(in, out Val) string {
		m := smMatrix(smDecodeEntries(in.At(0)))
		conflict := false
		for k, v := range m {
			if k[0] == k[1] {
				continue
			}
			if v2, ok := m[[2]byte{k[1], k[0]}]; ok && !(v2 == v) {
				conflict = true
			}
		}
		if conflict {
			if !isPanic(out) {
				return "two mirrored pairs carry different scores: no panic, got " + clip(out.String())
			}
			return ""
		}
		if !isOk(out) {
			return "no conflicting mirrored pairs, got " + clip(out.String())
		}
		orig := smBits(m)
		res := m.Symmetrical()
		if out.String() != vOk(smMatrixVal(res, true)).String() {
			return "two calls gave different matrices"
		}
		// every original pair and its mirror image, with an original score
		for k := range m {
			for _, kk := range [][2]byte{k, {k[1], k[0]}} {
				got, ok := res[kk]
				if !ok {
					return fmt.Sprintf("pair %v missing from the result", kk)
				}
				b := math.Float64bits(got)
				b1, ok1 := orig[kk]
				b2, ok2 := orig[[2]byte{kk[1], kk[0]}]
				if !((ok1 && b == b1) || (ok2 && b == b2)) {
					return fmt.Sprintf("pair %v has score %v, not the original score", kk, got)
				}
			}
		}
		// nothing else
		for kk := range res {
			_, ok1 := m[kk]
			_, ok2 := m[[2]byte{kk[1], kk[0]}]
			if !ok1 && !ok2 {
				return fmt.Sprintf("pair %v is neither an original pair nor a mirror image", kk)
			}
		}
		return ""
	}})

// ---- matrix_gostring ------------------------------------------------------------

// smParseElem reads 'x' (a Go character literal as %q prints it) or Gap.
func smParseElem(s string) (byte, string, error) {
	if strings.HasPrefix(s, "Gap") {
		return 255, s[3:], nil
	}
	if len(s) < 3 || s[0] != '\'' {
		return 0, "", fmt.Errorf("bad element at %q", s)
	}
	i := 1
	for i < len(s) && s[i] != '\'' {
		if s[i] == '\\' {
			i++
		}
		i++
	}
	if i >= len(s) {
		return 0, "", fmt.Errorf("unterminated character literal %q", s)
	}
	lit := s[:i+1]
	u, err := strconv.Unquote(lit)
	if err != nil {
		return 0, "", fmt.Errorf("bad character literal %s", lit)
	}
	rs := []rune(u)
	if len(rs) != 1 || rs[0] > 255 {
		return 0, "", fmt.Errorf("character literal %s is not a byte", lit)
	}
	return byte(rs[0]), s[i+1:], nil
}

// smParseGoString reads GoString's output back into (k0, k1, score text) triples.
func smParseGoString(s string) ([]Val, error) {
	if !strings.HasSuffix(s, "\n") {
		return nil, fmt.Errorf("no final newline")
	}
	lines := strings.Split(strings.TrimSuffix(s, "\n"), "\n")
	if len(lines) < 2 || lines[0] != "SubstitutionMatrix{" || lines[len(lines)-1] != "}" {
		return nil, fmt.Errorf("bad frame")
	}
	var r []Val
	for _, ln := range lines[1 : len(lines)-1] {
		if !strings.HasPrefix(ln, "{") || !strings.HasSuffix(ln, ",") {
			return nil, fmt.Errorf("bad line %q", ln)
		}
		a, rest, err := smParseElem(ln[1:])
		if err != nil {
			return nil, err
		}
		if !strings.HasPrefix(rest, ",") {
			return nil, fmt.Errorf("bad line %q", ln)
		}
		b, rest, err := smParseElem(rest[1:])
		if err != nil {
			return nil, err
		}
		if !strings.HasPrefix(rest, "}:") {
			return nil, fmt.Errorf("bad line %q", ln)
		}
		score := strings.TrimSuffix(rest[2:], ",")
		r = append(r, L(I(int(a)), I(int(b)), S(score)))
	}
	return r, nil
}

func smFmtV(x float64) string { return fmt.Sprintf("%v", x) }

var kMatGoString = register(&Kind{Name: "matrix_gostring",
	// in = [entries foracle]
	Impl: func(in Val) Val {
		m := smMatrix(smDecodeEntries(in.At(0)))
		triples, err := smParseGoString(m.GoString())
		if err != nil {
			return L(I(3), S(err.Error()))
		}
		return vOk(L(triples...))
	},
	Oracle: func(in, out Val) string {
		m := smMatrix(smDecodeEntries(in.At(0)))
		if !isOk(out) {
			return "GoString output not understood: " + clip(out.String())
		}
		if s := fmt.Sprintf("%#v", m); s != m.GoString() {
			return "%#v does not print GoString()"
		}
		seen := map[[2]byte]bool{}
		prev := -1
		for _, t := range out.At(1).List() {
			k := [2]byte{byte(t.At(0).Int()), byte(t.At(1).Int())}
			ord := int(k[0])*256 + int(k[1])
			if ord <= prev {
				return fmt.Sprintf("keys not strictly ascending at %v", k)
			}
			prev = ord
			want, ok := m[k]
			if !ok {
				return fmt.Sprintf("pair %v is not in the matrix", k)
			}
			seen[k] = true
			got, err := strconv.ParseFloat(t.At(2).Str(), 64)
			if err != nil {
				return fmt.Sprintf("score %q of pair %v is not a number", t.At(2).Str(), k)
			}
			if math.Float64bits(got) != math.Float64bits(want) && !(math.IsNaN(got) && math.IsNaN(want)) {
				return fmt.Sprintf("pair %v printed as %q, score is %v", k, t.At(2).Str(), want)
			}
		}
		if len(seen) != len(m) {
			return fmt.Sprintf("%d of %d pairs listed", len(seen), len(m))
		}
		return ""
	}})

// ---- generators -------------------------------------------------------------------

// an NCBI table at the token level: line 0 is the header (labels), the others
// a label followed by score texts
type ncbiTable struct {
	cols []byte
	rows []byte
	toks [][]string
}

func smLab(b byte) byte {
	if b == '*' {
		return 255
	}
	return b
}

// truth: the (row, column) -> score map the table denotes (a repeated label
// denotes the later row/column)
func (t *ncbiTable) truth() map[[2]byte]float64 {
	m := map[[2]byte]float64{}
	for i, r := range t.rows {
		for j, cl := range t.cols {
			x, err := strconv.ParseFloat(t.toks[i][j], 64)
			if err != nil {
				panic("harness bug: generated score does not parse: " + t.toks[i][j])
			}
			m[[2]byte{smLab(r), smLab(cl)}] = x
		}
	}
	return m
}

func (t *ncbiTable) lines() [][]string {
	var ls [][]string
	var h []string
	for _, cl := range t.cols {
		h = append(h, string([]byte{cl}))
	}
	ls = append(ls, h)
	for i, r := range t.rows {
		ls = append(ls, append([]string{string([]byte{r})}, t.toks[i]...))
	}
	return ls
}

var smGoodSpecial = []string{"inf", "-INF", "+Infinity", "nan", "NaN", ".5", "5.", "-.25", "0x1p-2", "0X1.8P1", "1e3", "1E-2",
	"-0", "+0", "0.0", "-0.0", "00012", "+7", "1e-400", "4.9e-324", "0x1_0p0", "1_0", "179769313486231570000000000000000000000000000000000000000000000000000000000000000000000000000000000000000000000000000000000000000000000000000000000000000000000000000000000000000000000000000000000000000000000000000000000000000000000000000000000000000000000000000000000000000000000000000000000000000000000000"}
var smBadScores = []string{"x", "1f", "2f", "1,5", "--1", "0x", "1e", "1__0", "_1", "+", "-", ".", "e5", "1.2.3", "0x1", "1\v2", "1\x00", "\xc2\xa01", "1\xc2\xa0", "\xd9\xa1", "Infinit", "na", "1e+", "1\x85", "*", "A", "1e400", "-1e400"}
var smBadLabels = []string{"AB", "**", "A*", "\xc3\xa9", "A\v", "\vA", "10", "A\x00", "\xff\xff", "##"}

// smLabelPool: single bytes that are not \s; includes '*', '#', VT, NUL, 0x85, 0xA0, 0xFF.
func (c *Ctx) smLabels(n int, distinct bool) []byte {
	var r []byte
	used := map[byte]bool{}
	for len(r) < n {
		var b byte
		switch c.Intn(6) {
		case 0:
			b = []byte{'*', '#', 11, 0, 0x85, 0xa0, 0xff, '\'', '\\', '1', '-', '.'}[c.Intn(12)]
		case 1:
			b = byte(c.Intn(256))
		default:
			b = "ACGTRNDQEHILKMFPSWYVBZX"[c.Intn(23)]
		}
		if b == '\t' || b == '\n' || b == '\f' || b == '\r' || b == ' ' {
			continue
		}
		if distinct && used[smLab(b)] {
			continue
		}
		used[smLab(b)] = true
		r = append(r, b)
	}
	return r
}

func (c *Ctx) smScoreText(kind int) string {
	var x float64
	switch kind {
	case 0:
		x = float64(c.Intn(41) - 20)
	case 1:
		x = float64(c.Intn(401)-200) / 8
	case 2:
		return smGoodSpecial[c.Intn(len(smGoodSpecial))]
	default:
		x = c.RandFloat()
	}
	var t string
	switch c.Intn(6) {
	case 0:
		t = strconv.FormatFloat(x, 'e', -1, 64)
	case 1:
		if math.Abs(x) < 1e15 || math.IsNaN(x) || math.IsInf(x, 0) {
			t = strconv.FormatFloat(x, 'f', -1, 64)
		} else {
			t = strconv.FormatFloat(x, 'G', -1, 64)
		}
	default:
		t = strconv.FormatFloat(x, 'g', -1, 64)
	}
	if c.Intn(8) == 0 && t[0] != '-' && t[0] != '+' && t[0] != 'N' {
		t = "+" + t
	}
	return t
}

func (c *Ctx) smTable(nr, nc int, distinct bool, scoreKind int) *ncbiTable {
	t := &ncbiTable{cols: c.smLabels(nc, distinct), rows: c.smLabels(nr, distinct)}
	for i := 0; i < nr; i++ {
		var row []string
		for j := 0; j < nc; j++ {
			k := scoreKind
			if k < 0 {
				k = c.Intn(4)
			}
			row = append(row, c.smScoreText(k))
		}
		t.toks = append(t.toks, row)
	}
	return t
}

func (c *Ctx) smWs(min, max int, set string) string {
	n := min + c.Intn(max-min+1)
	b := make([]byte, n)
	for i := range b {
		b[i] = set[c.Intn(len(set))]
	}
	return string(b)
}

// smRender lays the token lines out. style 0: single spaces, LF; 1: spaces and
// tabs; 2: runs of space/TAB/FF/CR, CRLF, comment and empty lines, optional
// missing final newline. wsOnlyPre: whitespace-only lines before the header.
func (c *Ctx) smRender(ls [][]string, style int, wsOnlyPre bool) []byte {
	set := " "
	switch style {
	case 1:
		set = " \t"
	case 2:
		set = " \t\f\r"
	}
	var out []string
	skip := func() {
		for style == 2 && c.Intn(3) == 0 {
			switch c.Intn(4) {
			case 0:
				out = append(out, "")
			case 1:
				out = append(out, "#")
			case 2:
				out = append(out, "# "+string(c.RandBytes(c.Intn(12), []byte("AB 12\t-.#*\r\v\x00\xff"))))
			case 3:
				out = append(out, "#A 1 2 3")
			}
		}
	}
	if wsOnlyPre {
		out = append(out, c.smWs(1, 3, " \t\f\r"))
	}
	for i, toks := range ls {
		skip()
		if wsOnlyPre && i == 0 && c.Intn(2) == 0 {
			out = append(out, c.smWs(1, 4, " \t\f\r"))
		}
		var sb strings.Builder
		lead := ""
		if style > 0 || i == 0 {
			lead = c.smWs(0, 3, set)
		}
		if len(toks) > 0 && strings.HasPrefix(toks[0], "#") && lead == "" {
			lead = " "
		}
		sb.WriteString(lead)
		for j, t := range toks {
			if j > 0 {
				if style == 0 {
					sb.WriteString(" ")
				} else {
					sb.WriteString(c.smWs(1, 4, set))
				}
			}
			sb.WriteString(t)
		}
		if style > 0 {
			sb.WriteString(c.smWs(0, 3, set))
		}
		out = append(out, sb.String())
	}
	skip()
	var b bytes.Buffer
	for i, ln := range out {
		b.WriteString(ln)
		last := i == len(out)-1
		if last && style == 2 && c.Intn(3) == 0 {
			break
		}
		if style == 2 && c.Intn(2) == 0 {
			b.WriteString("\r\n")
		} else {
			b.WriteString("\n")
		}
	}
	return b.Bytes()
}

func smCase(data []byte, termErr bool, truth Val) Val {
	o := newFloatOracle(canonF)
	for _, tok := range splitRuns(data, "\t\n\f\r ") {
		o.Token(tok)
	}
	return L(B(data), termVal(termErr), o.Val(), truth)
}

func smTruthOk(m map[[2]byte]float64) Val { return L(I(0), smMatrixVal(m, false)) }

var smTruthErr = L(I(1))
var smNoTruth = L()

func cloneLines(ls [][]string) [][]string {
	r := make([][]string, len(ls))
	for i := range ls {
		r[i] = append([]string(nil), ls[i]...)
	}
	return r
}

// smCorrupt applies one single-token corruption to a valid table (>= 1 row,
// >= 1 column); every one of them must make ReadNCBI fail.
func (c *Ctx) smCorrupt(t *ncbiTable) ([][]string, string) {
	ls := cloneLines(t.lines())
	nr, nc := len(t.rows), len(t.cols)
	r := 1 + c.Intn(nr)
	for {
		switch c.Intn(11) {
		case 0: // drop a value
			j := 1 + c.Intn(nc)
			ls[r] = append(ls[r][:j:j], ls[r][j+1:]...)
			return ls, "drop-value"
		case 1: // add a value
			j := 1 + c.Intn(nc+1)
			ls[r] = append(ls[r][:j:j], append([]string{c.smScoreText(c.Intn(2))}, ls[r][j:]...)...)
			return ls, "add-value"
		case 2: // non-numeric score
			ls[r][1+c.Intn(nc)] = smBadScores[c.Intn(len(smBadScores))]
			return ls, "non-numeric-score"
		case 3: // multi-character row label
			ls[r][0] = smBadLabels[c.Intn(len(smBadLabels))]
			return ls, "multi-char-row-label"
		case 4: // multi-character column label
			ls[0][c.Intn(nc)] = smBadLabels[c.Intn(len(smBadLabels))]
			return ls, "multi-char-column-label"
		case 5: // drop the row label
			ls[r] = ls[r][1:]
			return ls, "drop-row-label"
		case 6: // one more column label
			ls[0] = append(ls[0], "Z")
			return ls, "add-column-label"
		case 7: // one column label fewer
			if nc < 2 {
				continue
			}
			j := c.Intn(nc)
			ls[0] = append(ls[0][:j:j], ls[0][j+1:]...)
			return ls, "drop-column-label"
		case 8: // a separator that is not \s glues two tokens
			glue := []string{"\v", "\x00", "\xc2\xa0", "\x85", "\xe2\x80\x83", ",", ";"}[c.Intn(7)]
			i := c.Intn(len(ls))
			if len(ls[i]) < 2 {
				continue
			}
			j := c.Intn(len(ls[i]) - 1)
			ls[i] = append(ls[i][:j:j], append([]string{ls[i][j] + glue + ls[i][j+1]}, ls[i][j+2:]...)...)
			return ls, "non-space-separator"
		case 9: // a whitespace-only line in the body
			i := 1 + c.Intn(len(ls))
			ls = append(ls[:i:i], append([][]string{{}}, ls[i:]...)...)
			ls[i] = []string{} // rendered as a run of blanks (made non-empty by the caller)
			return ls, "blank-line-in-body"
		case 10: // a row that lost all its values
			ls[r] = ls[r][:1]
			return ls, "label-only-row"
		}
	}
}

// smRenderCorrupt: like smRender but a token-less line is a non-empty run of blanks.
func (c *Ctx) smRenderCorrupt(ls [][]string, style int) []byte {
	const marker = "\x01BLANK\x01"
	ls2 := cloneLines(ls)
	for i := range ls2 {
		if len(ls2[i]) == 0 {
			ls2[i] = []string{marker}
		}
	}
	data := c.smRender(ls2, style, false)
	for bytes.Contains(data, []byte(marker)) {
		data = bytes.Replace(data, []byte(marker), []byte(c.smWs(1, 3, " \t")), 1)
	}
	return data
}

func (c *Ctx) smRandMatrix(n int, alpha []byte, scores []float64) []smEntry {
	var es []smEntry
	seen := map[[2]byte]bool{}
	for i := 0; i < n; i++ {
		a, b := alpha[c.Intn(len(alpha))], alpha[c.Intn(len(alpha))]
		if seen[[2]byte{a, b}] {
			continue
		}
		seen[[2]byte{a, b}] = true
		var x float64
		if scores != nil {
			x = scores[c.Intn(len(scores))]
		} else {
			x = c.RandFloat()
		}
		es = append(es, smEntry{a, b, x})
	}
	return es
}

func smGoStringCase(es []smEntry) Val {
	o := newFloatOracle(smFmtV)
	for _, e := range es {
		o.Float(e.x)
	}
	return L(smEntriesVal(es), o.Val())
}

func smSymStratum(es []smEntry) (string, bool) {
	m := smMatrix(es)
	mirrors, conflict, offdiag := 0, false, false
	for k, v := range m {
		if k[0] == k[1] {
			continue
		}
		offdiag = true
		if v2, ok := m[[2]byte{k[1], k[0]}]; ok {
			mirrors++
			if !(v2 == v) {
				conflict = true
			}
		}
	}
	switch {
	case conflict:
		return "sym/conflict", true
	case mirrors > 0:
		return "sym/mirrors-equal", true
	case offdiag:
		return "sym/no-mirrors", true
	}
	return "sym/diagonal-or-empty", false
}

// smGoRun writes the Go source generated from GoString (the way genncbi does,
// through go/format), runs it with `go run` in a scratch directory and
// compares the matrices it prints with the originals.
func smGoRun(c *Ctx, ms []align.SubstitutionMatrix) {
	var sb strings.Builder
	sb.WriteString("package main\n\nimport (\n\"fmt\"\n\"math\"\n\"sort\"\n)\n\ntype SubstitutionMatrix map[[2]byte]float64\n\nconst Gap = 255\n\nvar ms = []SubstitutionMatrix{\n")
	for _, m := range ms {
		sb.WriteString(strings.TrimSuffix(fmt.Sprintf("%#v", m), "\n"))
		sb.WriteString(",\n")
	}
	sb.WriteString("}\n\nfunc main() {\nfor i, m := range ms {\nvar ks [][2]byte\nfor k := range m {\nks = append(ks, k)\n}\n")
	sb.WriteString("sort.Slice(ks, func(a, b int) bool { return int(ks[a][0])*256+int(ks[a][1]) < int(ks[b][0])*256+int(ks[b][1]) })\n")
	sb.WriteString("for _, k := range ks {\nfmt.Printf(\"%d %d %d %016x\\n\", i, k[0], k[1], math.Float64bits(m[k]))\n}\n}\n}\n")
	fail := func(msg string) { c.Fail(kMatGoString, L(I(len(ms))), "go run of the generated source: "+msg) }
	src, err := format.Source([]byte(sb.String()))
	if err != nil {
		fail("go/format rejects the generated source: " + err.Error())
		return
	}
	dir := filepath.Join(c.outDir, "gorun")
	os.RemoveAll(dir)
	if err := os.MkdirAll(dir, 0o755); err != nil {
		fail(err.Error())
		return
	}
	defer os.RemoveAll(dir)
	os.WriteFile(filepath.Join(dir, "go.mod"), []byte("module scratch\n\ngo 1.21\n"), 0o644)
	os.WriteFile(filepath.Join(dir, "main.go"), src, 0o644)
	cmd := exec.Command("go", "run", ".")
	cmd.Dir = dir
	cmd.Env = append(os.Environ(), "GOFLAGS=-mod=mod", "GOPROXY=off", "GOSUMDB=off", "GOTOOLCHAIN=local")
	outb, err := cmd.CombinedOutput()
	if err != nil {
		fail(err.Error() + ": " + clip(string(outb)))
		return
	}
	var want strings.Builder
	n := 0
	for i, m := range ms {
		for _, k := range smSortedKeys(m) {
			fmt.Fprintf(&want, "%d %d %d %016x\n", i, k[0], k[1], math.Float64bits(m[k]))
			n++
		}
	}
	if string(outb) != want.String() {
		fail("the compiled matrices differ from the originals")
		return
	}
	c.Note("go run: %d matrices (%d pairs) written with %%#v, formatted with go/format, compiled and compared: identical", len(ms), n)
}

func init() {
	registerProp("C20", "ReadNCBI: generated tables (1..6 x 1..6, some up to 25 x 25; labels any non-\\s byte incl. '*', '#', VT, NUL, >= 0x80; integer, dyadic, special-syntax and arbitrary float64 scores) rendered in three layout styles (single spaces; spaces+tabs; runs of SP/TAB/FF/CR with CRLF, comment/empty lines, missing final newline, whitespace-only lines before the header), duplicate labels, header-only tables, read faults; every single-token corruption of a valid table (11 kinds); Scanner line limit 65535/65536; all strings over a small alphabet up to length L; random byte soup; every byte value as a label. Symmetrical: all partial matrices over {a,b} with scores in {absent,0,-0,1,NaN}, random partial matrices over small alphabets with/without mirrors and conflicts, shipped matrices. GoString: every byte value in either key position, random matrices over all bytes with arbitrary float64 scores, shipped matrices; thorough: generated source compiled with go run. non-trivial = a table with >= 2 cells or a corruption; a matrix with an off-diagonal pair; a GoString matrix with >= 2 pairs",
		func(c *Ctx) {
			// ---- ReadNCBI: valid tables -------------------------------------------
			n := c.Pick(1500, 20000)
			for i := 0; i < n; i++ {
				nr, nc := 1+c.Intn(6), 1+c.Intn(6)
				if c.Intn(40) == 0 {
					nr, nc = 1+c.Intn(25), 1+c.Intn(25)
				}
				if c.Intn(25) == 0 {
					nr = 0
				}
				distinct := c.Intn(8) != 0
				scoreKind := []int{0, 1, 2, 3, -1}[c.Intn(5)]
				t := c.smTable(nr, nc, distinct, scoreKind)
				style := c.Intn(3)
				wsPre := style == 2 && c.Intn(6) == 0
				data := c.smRender(t.lines(), style, wsPre)
				strat := fmt.Sprintf("read/valid/style%d/scores%d", style, scoreKind)
				if !distinct {
					strat += "/dup-labels-allowed"
				}
				if wsPre {
					strat = "read/valid/blank-lines-before-header"
				}
				if nr == 0 {
					strat = "read/valid/header-only"
				}
				if nr != nc && nr > 0 {
					c.strata["read/valid/rectangular"]++
				}
				if bytes.IndexByte(append(append([]byte{}, t.cols...), t.rows...), '*') >= 0 {
					c.strata["read/valid/gap-label"]++
				}
				if c.Intn(15) == 0 {
					c.Run(kNcbiRead, smCase(data, true, smTruthErr), true, "read/valid-table-read-fault")
					continue
				}
				c.Run(kNcbiRead, smCase(data, false, smTruthOk(t.truth())), nr*nc >= 2, strat)
			}
			// ---- ReadNCBI: single-token corruptions -------------------------------
			n = c.Pick(1500, 20000)
			for i := 0; i < n; i++ {
				t := c.smTable(1+c.Intn(5), 1+c.Intn(5), true, []int{0, 1, -1}[c.Intn(3)])
				ls, what := c.smCorrupt(t)
				data := c.smRenderCorrupt(ls, c.Intn(3))
				c.Run(kNcbiRead, smCase(data, false, smTruthErr), true, "read/corrupt/"+what)
			}
			// ---- ReadNCBI: the Scanner's line limit -------------------------------
			for _, ln := range []int{65535, 65536} {
				want := smTruthOk(map[[2]byte]float64{{'A', 'B'}: 1})
				if ln == 65536 {
					want = smTruthErr
				}
				pad := strings.Repeat("x", ln-1)
				spaces := strings.Repeat(" ", ln-2)
				c.Run(kNcbiRead, smCase([]byte("#"+pad+"\nB\nA 1\n"), false, want), true, fmt.Sprintf("read/line-limit/comment-%d", ln))
				c.Run(kNcbiRead, smCase([]byte("B\nA 1\n#"+pad), false, want), true, fmt.Sprintf("read/line-limit/unterminated-comment-%d", ln))
				c.Run(kNcbiRead, smCase([]byte("B\nA"+spaces+"1\n"), false, want), true, fmt.Sprintf("read/line-limit/row-%d", ln))
				c.Run(kNcbiRead, smCase([]byte("B\nA 1\n#"+pad[1:]+"\r\n"), false, want), true, fmt.Sprintf("read/line-limit/crlf-%d", ln))
			}
			// ---- ReadNCBI: every byte value as a label ----------------------------
			for b := 0; b < 256; b++ {
				ch := string([]byte{byte(b)})
				truth := smNoTruth
				isSp := strings.ContainsAny(ch, "\t\n\f\r ")
				if !isSp {
					truth = smTruthOk(map[[2]byte]float64{{smLab(byte(b)), 'X'}: 1, {smLab(byte(b)), smLab(byte(b))}: 2.5})
				}
				c.Run(kNcbiRead, smCase([]byte(" X "+ch+"\n "+ch+" 1 2.5\n"), false, truth), true, "read/all-bytes-as-label")
				c.Run(kNcbiRead, smCase([]byte("X"+ch+"Y\nA"+ch+"1"+ch+"2\n"), false, smNoTruth), true, "read/all-bytes-as-separator")
			}
			c.Exhaustive("every byte value as a label and as a separator")
			// ---- ReadNCBI: all short strings --------------------------------------
			alpha, maxLen := []byte("A1 \n#"), 6
			if c.Thorough() {
				alpha, maxLen = []byte("A*1 \n#\r"), 6
			}
			allStrings(alpha, maxLen, func(s []byte) {
				out := c.Run(kNcbiRead, smCase(s, false, smNoTruth), false, "read/exhaustive")
				if isOk(out) && len(out.At(1).List()) > 0 {
					c.strata["read/exhaustive/accepted-non-empty"]++
				}
			})
			c.Exhaustive(fmt.Sprintf("all inputs over %q of length <= %d", alpha, maxLen))
			// ---- ReadNCBI: byte soup ----------------------------------------------
			n = c.Pick(1500, 20000)
			for i := 0; i < n; i++ {
				s := c.RandBytes(c.Choose(3, 8, 15, 30, 60), []byte("AB*12 .\t\n\n#-\r\f\ve"))
				c.Run(kNcbiRead, smCase(s, c.Intn(10) == 0, smNoTruth), false, "read/soup")
			}
			// ---- Symmetrical -------------------------------------------------------
			negZero := math.Copysign(0, -1)
			vals := []float64{0, negZero, 1, math.NaN()}
			keys := [][2]byte{{'a', 'a'}, {'a', 'b'}, {'b', 'a'}, {'b', 'b'}}
			for code := 0; code < 625; code++ {
				var es []smEntry
				x := code
				for _, k := range keys {
					if d := x % 5; d > 0 {
						es = append(es, smEntry{k[0], k[1], vals[d-1]})
					}
					x /= 5
				}
				strat, nt := smSymStratum(es)
				c.Run(kMatSym, L(smEntriesVal(es)), nt, strat, "sym/exhaustive")
			}
			c.Exhaustive("Symmetrical: all partial matrices over {a,b} with scores in {absent, 0, -0, 1, NaN}")
			pool := []float64{0, negZero, 1, -1, 0.5, 2, math.NaN(), math.Inf(1), -4, 1e-7}
			n = c.Pick(2000, 30000)
			for i := 0; i < n; i++ {
				alpha := [][]byte{[]byte("ab"), []byte("abc"), {'A', 'C', 'G', 'T', 255}, {0, 255, '*', 'x'}}[c.Intn(4)]
				sc := [][]float64{pool, pool[:3], {1}, {1, 2}, nil}[c.Intn(5)]
				es := c.smRandMatrix(c.Choose(0, 1, 2, 3, 5, 8, 12, 25), alpha, sc)
				if c.Intn(3) == 0 { // make it symmetric, then maybe break one mirror
					m := smMatrix(es)
					for _, e := range es {
						if _, ok := m[[2]byte{e.b, e.a}]; !ok {
							m[[2]byte{e.b, e.a}] = e.x
							es = append(es, smEntry{e.b, e.a, e.x})
						}
					}
					if len(es) > 0 && c.Intn(3) == 0 {
						j := c.Intn(len(es))
						es[j].x = es[j].x + 1
					}
				}
				strat, nt := smSymStratum(es)
				c.Run(kMatSym, L(smEntriesVal(es)), nt, strat)
			}
			shipped := map[string]align.SubstitutionMatrix{"BLOSUM45": align.BLOSUM45, "BLOSUM62": align.BLOSUM62, "BLOSUM80": align.BLOSUM80,
				"PAM120": align.PAM120, "PAM160": align.PAM160, "PAM250": align.PAM250}
			var names []string
			for name := range shipped {
				names = append(names, name)
			}
			sort.Strings(names)
			for _, name := range names {
				var es []smEntry
				for _, k := range smSortedKeys(shipped[name]) {
					es = append(es, smEntry{k[0], k[1], shipped[name][k]})
				}
				c.Run(kMatSym, L(smEntriesVal(es)), true, "sym/shipped")
				c.Run(kMatGoString, smGoStringCase(es), true, "gostring/shipped")
				// upper triangle only: Symmetrical must rebuild the full matrix
				var tri []smEntry
				for _, e := range es {
					if e.a <= e.b {
						tri = append(tri, e)
					}
				}
				out := c.Run(kMatSym, L(smEntriesVal(tri)), true, "sym/shipped-upper-triangle")
				if out.String() != vOk(smMatrixVal(shipped[name], true)).String() {
					c.Fail(kMatSym, L(S(name)), "mirroring the upper triangle of the shipped matrix does not give it back")
				}
			}
			// ---- GoString ----------------------------------------------------------
			for b := 0; b < 256; b++ {
				c.Run(kMatGoString, smGoStringCase([]smEntry{{byte(b), 'A', 1}, {'A', byte(b), -2.5}, {byte(b), byte(b), 3}}), true, "gostring/all-bytes")
			}
			c.Exhaustive("GoString: every byte value in either key position")
			n = c.Pick(1500, 20000)
			for i := 0; i < n; i++ {
				var alpha []byte
				switch c.Intn(4) {
				case 0:
					alpha = []byte("ab")
				case 1:
					alpha = []byte{'\'', '\\', '"', '{', '}', ',', ':', 0, 10, 127, 128, 160, 233, 254, 255}
				case 2:
					alpha = nil
				case 3:
					alpha = []byte("ACGT\xff")
				}
				if alpha == nil {
					alpha = c.RandBytes(1+c.Intn(12), nil)
				}
				sc := [][]float64{pool, nil, nil, {1, -1, 4}}[c.Intn(4)]
				es := c.smRandMatrix(c.Choose(0, 1, 2, 3, 6, 10, 30, 80), alpha, sc)
				strat := "gostring/random"
				if len(es) == 0 {
					strat = "gostring/empty"
				}
				c.Run(kMatGoString, smGoStringCase(es), len(es) >= 2, strat)
			}
			if c.Thorough() {
				var ms []align.SubstitutionMatrix
				for _, name := range names {
					ms = append(ms, shipped[name])
				}
				finite := []float64{0, 1, -1, 0.5, -2.25, 1e21, 1e-7, 5e-324, math.MaxFloat64, -math.MaxFloat64, 123456789, 3.1415, 1e20, 100}
				for i := 0; i < 60; i++ {
					alpha := c.RandBytes(1+c.Intn(10), nil)
					if i%3 == 0 {
						alpha = []byte{'\'', '\\', '"', '{', '}', ',', ':', 0, 10, 127, 128, 160, 233, 254, 255}
					}
					ms = append(ms, smMatrix(c.smRandMatrix(c.Choose(0, 1, 5, 40), alpha, finite)))
				}
				smGoRun(c, ms)
			}
		})
}
