package main

// Cross-format properties (mirrors coq/Corr/TotalCorr.v):
//
// C18 — every iterator can be stopped early, cleanly, at any point.
// Kinds stop_<iterator>; the last field of a case is the stop position p
// (0: never stop). Observable: [i0 [item ...]] = what the consumer
//
//	n := 0; for x, err := range it { record x; n++; if n == p { break } }
//
// saw, or [i2] when the loop panicked (the runtime's "range function continued
// iteration after function for loop body returned false", or anything else).
//
//	stop_fasta_reader stop_fastq_reader stop_bed_reader : [bytes term p]
//	stop_fasta_file   stop_fastq_file   stop_bed_file   : [opened bytes p]
//	stop_newick_reader                                  : [bytes term foracle p]
//	stop_newick_file                                    : [opened bytes foracle p]
//	stop_sam_readerheader stop_sam_reader               : [bytes term foracle p]
//	stop_sam_fileheader   stop_sam_file                 : [opened bytes foracle p]
//	stop_preorder stop_postorder                        : [tree p]   items = paths
//	stop_foreach                                        : [[seq ...] p] -> [i0 [count [all, sorted, if complete]]]
//	stop_canon                                          : [seq k p]
//
// (fasta/fastq reader.iter() is unexported; it runs inside Reader.)
//
// C11 — parsers are total, accepted records are fixed points of their codec, SAM
// bad lines are isolated. Kinds total_<fmt>: [bytes term (foracle)] -> the items
// of the Reader (ReaderHeader for sam; the ReadNCBI outcome for smtext), encoded
// as in the <fmt>_decode kinds; sam_lines: [[line ...] foracle classes].

import (
	"bytes"
	"fmt"
	"io"
	"iter"
	"os"
	"path/filepath"
	"slices"
	"sort"
	"strconv"
	"strings"
	"time"

	"github.com/fluhus/biostuff/formats/bed"
	"github.com/fluhus/biostuff/formats/fasta"
	"github.com/fluhus/biostuff/formats/fastq"
	"github.com/fluhus/biostuff/formats/newick"
	"github.com/fluhus/biostuff/formats/sam"
	"github.com/fluhus/biostuff/formats/smtext"
	"github.com/fluhus/biostuff/sequtil"
	"github.com/fluhus/biostuff/trie"
)

// =====================================================================================
// C18
// =====================================================================================

const c18Cap = 5000 // no C18 input has more than a few dozen items

// c18Consume is the consumer of the property, under recover.
func c18Consume[T any](it iter.Seq2[T, error], p int, enc func(T, error) Val) (out Val) {
	defer func() {
		if r := recover(); r != nil {
			if bc, ok := r.(badCase); ok {
				panic(bc)
			}
			out = vPanic
		}
	}()
	items := Val{K: 'l'}
	n := 0
	for x, err := range it {
		items.L = append(items.L, enc(x, err))
		n++
		if n == p {
			break
		}
		if n > c18Cap {
			return L(I(3), S("item cap hit"))
		}
	}
	return vOk(items)
}

// c18Direct calls the iterator function itself with a callback that answers
// false at its p-th call (so no compiler-inserted check sits between the
// iterator and the callback) and counts the calls before and after that.
func c18Direct[T any](it iter.Seq2[T, error], p int) (before, after int, panicked string) {
	defer func() {
		if r := recover(); r != nil {
			panicked = fmt.Sprint(r)
		}
	}()
	stopped := false
	it(func(T, error) bool {
		if stopped {
			after++
			return false
		}
		before++
		if before == p || before > c18Cap {
			stopped = true
			return false
		}
		return true
	})
	return
}

func totIsErrItem(v Val) bool {
	return v.K == 'l' && len(v.L) == 1 && v.L[0].K == 'i' && v.L[0].I == 1
}

func totLastInt(in Val) int {
	l := in.List()
	return l[len(l)-1].Int()
}

type c18Spec[T any] struct {
	name string
	// open returns a fresh iterator over the case's input and a cleanup.
	open    func(in Val) (iter.Seq2[T, error], func())
	enc     func(T, error) Val
	errLast bool                             // FASTA, FASTQ, BED, Newick: an error item is the last item
	// resumed: the iterator over a stream that fails once after half of the input and then
	// recovers and delivers the rest (readers only)
	resumed func(in Val) iter.Seq2[T, error]
	domain  func(in Val) bool                // nil: every input is in the property's domain
	post    func(items []Val, total int) Val // re-encoding of the items seen (ForEach)
	unorder bool                             // ForEach: order differs from run to run
}

func (s c18Spec[T]) run(in Val, p int) Val {
	it, cleanup := s.open(in)
	defer cleanup()
	return c18Consume(it, p, s.enc)
}

func c18Register[T any](s c18Spec[T]) *Kind {
	return register(&Kind{Name: s.name,
		Impl: func(in Val) Val {
			out := s.run(in, totLastInt(in))
			if s.post != nil && isOk(out) {
				full := s.run(in, 0)
				if !isOk(full) {
					return full
				}
				return vOk(s.post(out.At(1).List(), len(full.At(1).List())))
			}
			return out
		},
		Oracle: func(in, _ Val) string {
			if s.domain != nil && !s.domain(in) {
				return ""
			}
			p := totLastInt(in)
			out := s.run(in, p)
			if isPanic(out) {
				return fmt.Sprintf("stopping at item %d: the loop panicked (range function continued iteration after the loop body returned false?)", p)
			}
			if !isOk(out) {
				return "stopped run: " + clip(out.String())
			}
			full := s.run(in, 0)
			if !isOk(full) {
				return "uninterrupted run: " + clip(full.String())
			}
			items, all := out.At(1).List(), full.At(1).List()
			want := len(all)
			if p > 0 && p < want {
				want = p
			}
			if len(items) != want {
				return fmt.Sprintf("stopping at item %d of %d: %d items seen", p, len(all), len(items))
			}
			if s.unorder {
				seen := map[string]bool{}
				member := map[string]bool{}
				for _, a := range all {
					member[a.String()] = true
				}
				if len(member) != len(all) {
					return "the uninterrupted run reports an item twice"
				}
				for _, x := range items {
					k := x.String()
					if !member[k] {
						return "an item seen before the stop is not an item of the uninterrupted run"
					}
					if seen[k] {
						return "an item was seen twice before the stop"
					}
					seen[k] = true
				}
			} else {
				for i := range items {
					if items[i].String() != all[i].String() {
						return fmt.Sprintf("stopping at item %d: item %d differs from item %d of the uninterrupted run", p, i, i)
					}
				}
			}
			it, cleanup := s.open(in)
			before, after, pan := c18Direct(it, p)
			cleanup()
			if pan != "" {
				return fmt.Sprintf("callback answering false at call %d: panic: %s", p, clip(pan))
			}
			if after != 0 {
				return fmt.Sprintf("%d callbacks after the callback answered false at call %d", after, p)
			}
			if before != want {
				return fmt.Sprintf("callback answering false at call %d: %d calls, want %d", p, before, want)
			}
			if s.errLast {
				for i, x := range all {
					if totIsErrItem(x) && i != len(all)-1 {
						return fmt.Sprintf("item %d is an error and %d items follow it", i, len(all)-1-i)
					}
				}
				if s.resumed != nil {
					// a stream that fails once in the middle and then recovers: the error item ends
					// the iteration all the same
					if rv := c18Consume(s.resumed(in), 0, s.enc); rv.At(0).Int() == 0 {
						ri := rv.At(1).L
						for i, x := range ri {
							if totIsErrItem(x) && i != len(ri)-1 {
								return fmt.Sprintf("on a stream that fails once and recovers, item %d is an error and %d items follow it", i, len(ri)-1-i)
							}
						}
					}
				}
			}
			return ""
		}})
}

func totStream(data []byte, isErr bool) io.Reader {
	if isErr {
		return &faultReader{data: slices.Clone(data)}
	}
	return bytes.NewReader(slices.Clone(data))
}

func totNoCleanup() {}

// c18File writes the input to a private temporary file (opened) or names a path
// that does not exist.
func c18File(opened bool, data []byte) (string, func()) {
	dir := filepath.Join(os.TempDir(), fmt.Sprintf("verif-c18-%d", os.Getpid()))
	if !opened {
		return filepath.Join(dir, "no-such-dir", "missing.txt"), totNoCleanup
	}
	if err := os.MkdirAll(dir, 0o700); err != nil {
		panic(badCase("cannot create " + dir))
	}
	path := filepath.Join(dir, "input.txt")
	if err := os.WriteFile(path, data, 0o600); err != nil {
		panic(badCase("cannot write " + path))
	}
	return path, func() { os.RemoveAll(dir) }
}

func c18EncFasta(fa *fasta.Fasta, err error) Val {
	switch {
	case err != nil:
		return vErr
	case fa == nil:
		return L(I(3), S("nil record without an error"))
	}
	return vOk(vFasta(fa.Name, fa.Sequence))
}

func c18EncFastq(fq *fastq.Fastq, err error) Val {
	switch {
	case err != nil:
		return vErr
	case fq == nil:
		return L(I(3), S("nil record without an error"))
	}
	return vOk(fqRecVal(fq.Name, fq.Sequence, fq.Quals))
}

func c18EncBed(b *bed.BED, err error) Val {
	switch {
	case err != nil:
		return vErr
	case b == nil:
		return L(I(3), S("nil record without an error"))
	}
	return vOk(bedVal(b))
}

func c18EncNewick(n *newick.Node, err error) Val {
	switch {
	case err != nil:
		return vErr
	case n == nil:
		return L(I(3), S("nil tree without an error"))
	}
	return vOk(nodeVal(n))
}

func c18EncSamHdr(sh sam.SAMOrHeader, err error) Val {
	switch {
	case err != nil:
		return samErrItem
	case sh.H != nil && sh.S == nil:
		return samHdrItem(*sh.H)
	case sh.S != nil && sh.H == nil:
		return samRecItem(sh.S)
	}
	return L(I(3), S("neither or both of H and S set without an error"))
}

func c18EncSam(s *sam.SAM, err error) Val {
	switch {
	case err != nil:
		return samErrItem
	case s == nil:
		return L(I(3), S("nil record without an error"))
	}
	return samRecOnly(s)
}

func c18EncVal(v Val, _ error) Val { return v }

func c18ReaderSpec[T any](name string, mk func(io.Reader) iter.Seq2[T, error], enc func(T, error) Val, errLast bool) c18Spec[T] {
	return c18Spec[T]{name: name, enc: enc, errLast: errLast,
		open: func(in Val) (iter.Seq2[T, error], func()) {
			return mk(totStream(in.At(0).Bytes(), in.At(1).Int() == 1)), totNoCleanup
		},
		resumed: func(in Val) iter.Seq2[T, error] {
			data := in.At(0).Bytes()
			k := len(data) / 2
			return mk(&faultReader{data: slices.Clone(data[:k]), resume: slices.Clone(data[k:])})
		}}
}

func c18FileSpec[T any](name string, mk func(string) iter.Seq2[T, error], enc func(T, error) Val, errLast bool) c18Spec[T] {
	return c18Spec[T]{name: name, enc: enc, errLast: errLast,
		open: func(in Val) (iter.Seq2[T, error], func()) {
			path, cleanup := c18File(in.At(0).Int() == 1, in.At(1).Bytes())
			return mk(path), cleanup
		}}
}

func c18TraverseSpec(name string, pre bool) c18Spec[Val] {
	return c18Spec[Val]{name: name, enc: c18EncVal,
		open: func(in Val) (iter.Seq2[Val, error], func()) {
			paths := map[*newick.Node][]int{}
			root := buildWithPaths(valTree(in.At(0)), nil, paths)
			inner := root.PostOrder()
			if pre {
				inner = root.PreOrder()
			}
			return func(yield func(Val, error) bool) {
				inner(func(n *newick.Node) bool {
					p, ok := paths[n]
					if !ok {
						return yield(L(I(3), S("yielded a node that is not in the tree")), nil)
					}
					return yield(IL(p), nil)
				})
			}, totNoCleanup
		}}
}

func c18CanonInDomain(in Val) bool { return in.At(1).Int() >= 0 && allIn(in.At(0).Bytes(), dna10) }

var (
	kStopFastaReader  = c18Register(c18ReaderSpec("stop_fasta_reader", fasta.Reader, c18EncFasta, true))
	kStopFastaFile    = c18Register(c18FileSpec("stop_fasta_file", fasta.File, c18EncFasta, true))
	kStopFastqReader  = c18Register(c18ReaderSpec("stop_fastq_reader", fastq.Reader, c18EncFastq, true))
	kStopFastqFile    = c18Register(c18FileSpec("stop_fastq_file", fastq.File, c18EncFastq, true))
	kStopBedReader    = c18Register(c18ReaderSpec("stop_bed_reader", bed.Reader, c18EncBed, true))
	kStopBedFile      = c18Register(c18FileSpec("stop_bed_file", bed.File, c18EncBed, true))
	kStopNewickReader = c18Register(c18ReaderSpec("stop_newick_reader", newick.Reader, c18EncNewick, true))
	kStopNewickFile   = c18Register(c18FileSpec("stop_newick_file", newick.File, c18EncNewick, true))
	kStopSamRH        = c18Register(c18ReaderSpec("stop_sam_readerheader", sam.ReaderHeader, c18EncSamHdr, false))
	kStopSamReader    = c18Register(c18ReaderSpec("stop_sam_reader", sam.Reader, c18EncSam, false))
	kStopSamFH        = c18Register(c18FileSpec("stop_sam_fileheader", sam.FileHeader, c18EncSamHdr, false))
	kStopSamFile      = c18Register(c18FileSpec("stop_sam_file", sam.File, c18EncSam, false))
	kStopPre          = c18Register(c18TraverseSpec("stop_preorder", true))
	kStopPost         = c18Register(c18TraverseSpec("stop_postorder", false))

	kStopForEach = c18Register(c18Spec[[]byte]{name: "stop_foreach", unorder: true,
		enc: func(b []byte, _ error) Val { return B(b) },
		open: func(in Val) (iter.Seq2[[]byte, error], func()) {
			t := trie.New()
			for _, s := range in.At(0).BytesList() {
				t.Add(s)
			}
			return func(yield func([]byte, error) bool) {
				t.ForEach(func(b []byte) bool { return yield(b, nil) })
			}, totNoCleanup
		},
		post: func(items []Val, total int) Val {
			all := Val{K: 'l'}
			if len(items) == total {
				all.L = slices.Clone(items)
				sort.Slice(all.L, func(i, j int) bool { return bytes.Compare(all.L[i].B, all.L[j].B) < 0 })
			}
			return L(I(len(items)), all)
		}})

	kStopCanon = c18Register(c18Spec[[]byte]{name: "stop_canon", domain: c18CanonInDomain,
		enc: func(b []byte, _ error) Val { return B(b) },
		open: func(in Val) (iter.Seq2[[]byte, error], func()) {
			inner := sequtil.CanonicalSubsequences(in.At(0).Bytes(), in.At(1).Int())
			return func(yield func([]byte, error) bool) {
				inner(func(b []byte) bool { return yield(b, nil) })
			}, totNoCleanup
		}})
)

// c18ItemCount runs the case with p = 0 and returns the number of items of the
// uninterrupted run (-1: it did not complete).
func (c *Ctx) c18ItemCount(k *Kind, in Val) int {
	out := runImpl(k, in)
	if !isOk(out) {
		return -1
	}
	if k == kStopForEach {
		return out.At(1).At(0).Int()
	}
	return len(out.At(1).List())
}

// c18StopAll runs one input at every stop position 0..N+1.
func (c *Ctx) c18StopAll(k *Kind, mk func(p int) Val, strata ...string) {
	n := c.c18ItemCount(k, mk(0))
	if n < 0 {
		c.Run(k, mk(0), false, append(strata, "stop/run-does-not-complete")...)
		c.Run(k, mk(1), false, append(strata, "stop/run-does-not-complete")...)
		return
	}
	if n > 40 {
		c.Note("%s: an input with %d items was generated (only positions 0..41 are run)", k.Name, n)
		n = 40
	}
	full := runImpl(k, mk(0))
	for p := 0; p <= n+1; p++ {
		pos := "stop/middle"
		switch {
		case p == 0:
			pos = "stop/never"
		case p == 1:
			pos = "stop/first-item"
		case p == n:
			pos = "stop/last-item"
		case p == n+1:
			pos = "stop/beyond-the-end"
		}
		st := append(slices.Clone(strata), k.Name, pos, fmt.Sprintf("items=%d", min(n, 31)))
		if k != kStopForEach && p >= 1 && p <= n && totIsErrItem(full.At(1).List()[p-1]) {
			st = append(st, "stop/on-an-error-item")
		}
		c.Run(k, mk(p), p >= 1 && p < n, st...)
	}
}

func c18ReaderCase(data []byte, isErr bool, o *Val) func(p int) Val {
	return func(p int) Val {
		if o != nil {
			return L(B(data), termVal(isErr), *o, I(p))
		}
		return L(B(data), termVal(isErr), I(p))
	}
}

func c18FileCase(opened bool, data []byte, o *Val) func(p int) Val {
	op := 0
	if opened {
		op = 1
	}
	return func(p int) Val {
		if o != nil {
			return L(I(op), B(data), *o, I(p))
		}
		return L(I(op), B(data), I(p))
	}
}

// ---- C18 inputs, from the family generators -----------------------------------------

func (c *Ctx) c18FastaText() ([]byte, string) {
	switch c.Intn(6) {
	case 0:
		return c.RandBytes(c.Intn(40), []byte{'>', '>', '\n', '\n', '\r', 'A', 'C', ' ', 0, 0xff}), "fasta/malformed"
	case 1:
		var recs []*fasta.Fasta
		for i := c.Choose(8, 15, 30); i > 0; i-- {
			recs = append(recs, &fasta.Fasta{Name: c.fastaName(), Sequence: c.fastaBytes(c.Intn(5), "\r\n>", true)})
		}
		return fastaWritten(recs), "fasta/many-records"
	}
	recs, _, _ := c.fastaRecords(1000)
	opts := c.fastaLayoutOpts()
	o := opts[c.Intn(len(opts))]
	return c.fastaLayout(recs, o), "fasta/" + o.describe
}

func (c *Ctx) c18FastqText() ([]byte, string) {
	var recs []*fastq.Fastq
	n := c.Choose(0, 1, 2, 3, 4, 6, 12, 30)
	for i := 0; i < n; i++ {
		l := c.fqSmallLen()
		if n > 6 {
			l = c.Intn(4)
		}
		recs = append(recs, c.fqRecord(l))
	}
	var text []byte
	for _, r := range recs {
		text = append(text, fqRefText(r)...)
	}
	strat := "fastq/valid"
	if n > 0 && c.Intn(2) == 0 {
		// an error item: record i is damaged, the records before it are intact
		i := c.Intn(n)
		var cands [][]byte
		fqCorruptions(recs, i, func(kind string, line int, data []byte) { cands = append(cands, data) })
		text = cands[c.Intn(len(cands))]
		strat = "fastq/corrupted-record"
	}
	if c.Intn(4) == 0 {
		text = fqCRLF(text)
	}
	return text, strat
}

func (c *Ctx) c18BedText() ([]byte, string) {
	n := 3 + c.Intn(10)
	k := c.Choose(0, 1, 2, 3, 5, 8, 30)
	var sb strings.Builder
	strat := "bed/valid"
	bad := -1
	if k > 0 && c.Intn(2) == 0 {
		bad = c.Intn(k)
		strat = "bed/bad-line-inside"
	}
	for j := 0; j < k; j++ {
		if c.Intn(6) == 0 {
			sb.WriteString([]string{"\n", "#\n", "# c\tx\n", "\r\n"}[c.Intn(4)])
		}
		switch {
		case j == bad && c.Intn(2) == 0:
			sb.WriteString(c.bedLooseLine(max(1, c.Choose(1, 2, n-1, n+1, 13))))
		case j == bad:
			f := strings.Split(c.bedLooseLine(n), "\t")
			f[1+c.Intn(2)] = []string{"", "x", "1.5", "9223372036854775808"}[c.Intn(4)]
			sb.WriteString(strings.Join(f, "\t"))
		default:
			mt, _ := c.bedRecord(n).MarshalText()
			sb.WriteString(strings.TrimSuffix(string(mt), "\n"))
		}
		if j == k-1 && c.Intn(4) == 0 {
			break // no final newline
		}
		sb.WriteString([]string{"\n", "\n", "\r\n"}[c.Intn(3)])
	}
	return []byte(sb.String()), strat
}

func (c *Ctx) c18NewickText() ([]byte, string) {
	k := c.Choose(0, 1, 2, 3, 5, 10, 30)
	var buf bytes.Buffer
	for j := 0; j < k; j++ {
		sz := 1 + c.Intn(8)
		if k > 5 {
			sz = 1 + c.Intn(3)
		}
		buf.Write(refNewickText(c.label(c.randomShape(sz, c.Intn(5))))) // reference writer, not the library's
		buf.WriteString(newickSeps[c.Intn(len(newickSeps))])
	}
	text := buf.Bytes()
	strat := "newick/valid"
	if len(text) > 0 {
		switch c.Intn(4) {
		case 0:
			text = text[:c.Intn(len(text))]
			strat = "newick/truncated"
		case 1:
			i := c.Intn(len(text))
			text = slices.Insert(slices.Clone(text), i, []byte("(),:;' x")[c.Intn(8)])
			strat = "newick/spliced-delimiter"
		case 2:
			// a syntactically fine distance that float64 cannot hold (ParseFloat: ErrRange)
			// or that is not a number at all, in one of the trees
			lit := []string{":1e999", ":-1e400", ":1e309", ":0x1p1024", ":1e", ":--1", ":1.2.3"}[c.Intn(7)]
			bad := []string{"(a" + lit + ",b)c;", "x" + lit + ";", "((p,q)r" + lit + ",s);"}[c.Intn(3)]
			if c.Intn(2) == 0 {
				text = append([]byte(bad+"\n"), text...) // first tree of the stream
			} else if i := bytes.IndexByte(text, ';'); i >= 0 {
				text = slices.Insert(slices.Clone(text), i+1, []byte(bad)...) // second tree
			}
			strat = "newick/unrepresentable-distance"
		}
	}
	return text, strat
}

func (c *Ctx) c18SamText() ([]byte, string) {
	k := c.Choose(0, 1, 2, 3, 4, 6, 10, 30)
	var buf bytes.Buffer
	nbad := 0
	for j := 0; j < k; j++ {
		switch c.Intn(8) {
		case 0, 1:
			buf.WriteString([]string{"@HD\tVN:1.6", "@CO\tx", "@", "@SQ\tSN:c\tLN:5"}[c.Intn(4)])
		case 2:
			// an empty line: no item
		case 3, 4:
			b, _ := c.samMalformed()
			b = bytes.ReplaceAll(b, []byte("\n"), []byte(" "))
			buf.Write(b)
			nbad++
		default:
			s := c.samRecord()
			if k > 6 {
				s.Tags = map[string]any{}
			}
			buf.Write(bytes.TrimSuffix(samText(s), []byte("\n")))
		}
		if j == k-1 && c.Intn(4) == 0 {
			break
		}
		buf.WriteString([]string{"\n", "\n", "\r\n"}[c.Intn(3)])
	}
	strat := "sam/valid"
	if nbad > 0 {
		strat = "sam/malformed-lines-inside"
	}
	return buf.Bytes(), strat
}

func totSamOracle(data []byte) Val {
	o := newFloatOracle(samFmtFloat)
	samScanTokens(o, data)
	return o.Val()
}

func init() {
	registerProp("C18", "for each of the 16 exported iterators (fasta/fastq/bed/newick Reader and File, sam ReaderHeader/Reader/FileHeader/File, PreOrder, PostOrder, trie ForEach, CanonicalSubsequences; the unexported fasta/fastq reader.iter() runs inside Reader): inputs of the family generators with at most 30 items (valid files in several layouts, files with a damaged record / bad line / malformed SAM lines inside, truncated and spliced texts, streams that fail after the bytes, missing paths for File; every ordered tree shape up to 5 nodes and random shapes up to 30; random tries up to 30 members; DNA up to 30 bases with k around 0, 1 and the length), and for each input EVERY stop position p = 0 (never), 1..N, N+1, including stopping exactly on an error item; non-trivial = a real early stop (0 < p < N)", func(c *Ctx) {
		n := c.Pick(90, 600)
		// --- fasta, fastq, bed
		type textGen struct {
			gen          func() ([]byte, string)
			reader, file *Kind
			oracle       func([]byte) *Val
		}
		none := func([]byte) *Val { return nil }
		nwO := func(d []byte) *Val { v := inputOracleVal(d); return &v }
		samO := func(d []byte) *Val { v := totSamOracle(d); return &v }
		gens := []textGen{
			{c.c18FastaText, kStopFastaReader, kStopFastaFile, none},
			{c.c18FastqText, kStopFastqReader, kStopFastqFile, none},
			{c.c18BedText, kStopBedReader, kStopBedFile, none},
			{c.c18NewickText, kStopNewickReader, kStopNewickFile, nwO},
		}
		for _, g := range gens {
			for i := 0; i < n; i++ {
				text, strat := g.gen()
				isErr := c.Intn(4) == 0
				if isErr && len(text) > 0 && c.Intn(2) == 0 {
					text = text[:c.Intn(len(text)+1)]
				}
				if isErr {
					strat += "+failing-stream"
				}
				c.c18StopAll(g.reader, c18ReaderCase(text, isErr, g.oracle(text)), strat)
				if i%2 == 0 {
					c.c18StopAll(g.file, c18FileCase(true, text, g.oracle(text)), strat, "file/opened")
				}
			}
			c.c18StopAll(g.file, c18FileCase(false, nil, g.oracle(nil)), "file/missing-path")
			c.c18StopAll(g.reader, c18ReaderCase(nil, false, g.oracle(nil)), "empty-input")
			c.c18StopAll(g.reader, c18ReaderCase(nil, true, g.oracle(nil)), "empty-input+failing-stream")
			c.c18StopAll(g.file, c18FileCase(true, nil, g.oracle(nil)), "file/empty")
		}
		// --- sam: four iterators on the same inputs
		for i := 0; i < n; i++ {
			text, strat := c.c18SamText()
			isErr := c.Intn(4) == 0
			if isErr && len(text) > 0 && c.Intn(2) == 0 {
				text = text[:c.Intn(len(text)+1)]
			}
			if isErr {
				strat += "+failing-stream"
			}
			o := samO(text)
			c.c18StopAll(kStopSamRH, c18ReaderCase(text, isErr, o), strat)
			c.c18StopAll(kStopSamReader, c18ReaderCase(text, isErr, o), strat)
			if i%2 == 0 {
				c.c18StopAll(kStopSamFH, c18FileCase(true, text, o), strat, "file/opened")
				c.c18StopAll(kStopSamFile, c18FileCase(true, text, o), strat, "file/opened")
			}
		}
		for _, k := range []*Kind{kStopSamFH, kStopSamFile} {
			c.c18StopAll(k, c18FileCase(false, nil, samO(nil)), "file/missing-path")
			c.c18StopAll(k, c18FileCase(true, nil, samO(nil)), "file/empty")
		}
		for _, k := range []*Kind{kStopSamRH, kStopSamReader} {
			for _, t := range []string{"", "\n", "bad\n", "bad", "@h\nbad\n@k\n", "bad1\nbad2\nbad3\n", "@a\n@b\n@c"} {
				for _, e := range []bool{false, true} {
					c.c18StopAll(k, c18ReaderCase([]byte(t), e, samO([]byte(t))), "sam/literal")
				}
			}
		}
		// --- traversals
		maxN := c.Pick(5, 7)
		for sz := 1; sz <= maxN; sz++ {
			for _, sh := range allShapes(sz) {
				tv := treeVal(sh)
				for _, k := range []*Kind{kStopPre, kStopPost} {
					c.c18StopAll(k, func(p int) Val { return L(tv, I(p)) }, "tree/exhaustive-shapes")
				}
			}
		}
		c.Exhaustive(fmt.Sprintf("PreOrder/PostOrder: every ordered tree shape with at most %d nodes x every stop position", maxN))
		for i := 0; i < c.Pick(40, 300); i++ {
			tv := treeVal(c.randomShape(6+c.Intn(25), c.Intn(5)))
			for _, k := range []*Kind{kStopPre, kStopPost} {
				c.c18StopAll(k, func(p int) Val { return L(tv, I(p)) }, "tree/random-shapes")
			}
		}
		// --- trie.ForEach
		for i := 0; i < c.Pick(120, 1000); i++ {
			alpha := [][]byte{[]byte("ab"), []byte("abcde"), nil}[c.Intn(3)]
			var seqs [][]byte
			for j := c.Choose(0, 1, 2, 3, 5, 8, 15, 30); j > 0; j-- {
				s := c.RandBytes(c.Intn(7), alpha)
				if len(seqs) > 0 && c.Intn(3) == 0 { // share a prefix with an earlier one
					q := seqs[c.Intn(len(seqs))]
					s = append(slices.Clone(q[:c.Intn(len(q)+1)]), s[:min(len(s), 3)]...)
				}
				seqs = append(seqs, s)
			}
			sv := BL(seqs)
			c.c18StopAll(kStopForEach, func(p int) Val { return L(sv, I(p)) }, "trie/random")
		}
		// --- CanonicalSubsequences
		for i := 0; i < c.Pick(150, 1200); i++ {
			s := c.RandBytes(c.Choose(0, 1, 2, 3, 5, 8, 13, 21, 30), dna10)
			k := c.Choose(0, 1, 1, 2, 3, 4, len(s)-1, len(s), len(s)+1, len(s)+5)
			strat := "canon/valid"
			switch {
			case k < 0:
				strat = "canon/negative-k(outside-domain)"
			case len(s) > 0 && c.Intn(12) == 0:
				s[c.Intn(len(s))] = 'x'
				strat = "canon/foreign-byte(outside-domain)"
			}
			sv := B(s)
			c.c18StopAll(kStopCanon, func(p int) Val { return L(sv, I(k), I(p)) }, strat)
		}
	})
}

// =====================================================================================
// C11
// =====================================================================================

// totDeadline runs f and gives up after a while (a reader that neither yields
// nor returns would otherwise hang the run).
func totDeadline(f func() Val) Val {
	ch := make(chan Val, 1)
	go func() {
		defer func() {
			if r := recover(); r != nil {
				if bc, ok := r.(badCase); ok {
					ch <- L(I(4), S("harness bug: "+string(bc)))
					return
				}
				ch <- vPanic
			}
		}()
		ch <- f()
	}()
	select {
	case v := <-ch:
		return v
	case <-time.After(30 * time.Second):
		return L(I(3), S("deadline exceeded: the reader does not terminate"))
	}
}

func c11Stream(in Val) (data []byte, isErr bool) { return in.At(0).Bytes(), in.At(1).Int() == 1 }

// c11Common: no panic, terminated, below the item cap.
func c11Common(in, out Val, wrapped bool) ([]Val, string) {
	if isPanic(out) {
		return nil, "the reader panicked"
	}
	items := out
	if wrapped {
		if !isOk(out) {
			return nil, "reader: " + clip(out.String())
		}
		items = out.At(1)
	}
	if items.K != 'l' {
		return nil, "reader: " + clip(out.String())
	}
	for _, it := range items.L {
		if it.K != 'l' || len(it.L) == 0 || it.L[0].K != 'i' || it.L[0].I > 1 {
			return nil, "reader: " + clip(it.String())
		}
	}
	if len(items.L) >= len(in.At(0).Bytes())+8 {
		return nil, "item cap hit: more items than input bytes"
	}
	return items.L, ""
}

var kTotalFasta = register(&Kind{Name: "total_fasta",
	Impl: func(in Val) Val {
		data, isErr := c11Stream(in)
		return totDeadline(func() Val { return fastaItems(fasta.Reader(totStream(data, isErr)), len(data)+8) })
	},
	Oracle: func(in, out Val) string {
		if _, msg := c11Common(in, out, false); msg != "" {
			return msg
		}
		data, isErr := c11Stream(in)
		i := 0
		immediate := Val{K: 'l'} // every item encoded at the moment it is yielded
		for fa, err := range fasta.Reader(totStream(data, isErr)) {
			if err != nil {
				immediate.L = append(immediate.L, L(I(1)))
				break
			}
			immediate.L = append(immediate.L, L(I(0), vFasta(fa.Name, fa.Sequence)))
			i++
			if !nameOK(fa.Name) || !seqOK(fa.Sequence) {
				continue
			}
			var buf bytes.Buffer
			if err := fa.Write(&buf); err != nil {
				return fmt.Sprintf("accepted record %d cannot be written", i)
			}
			// the other writer must agree (MarshalText has its own length self-check)
			if mt, ok := try1(func() []byte { b, _ := fa.MarshalText(); return b }); !ok || !bytes.Equal(mt, buf.Bytes()) {
				return fmt.Sprintf("accepted record %d: MarshalText panics or differs from Write", i)
			}
			want := L(L(I(0), vFasta(fa.Name, fa.Sequence)))
			if got := fastaItems(fasta.Reader(&buf), 4); got.String() != want.String() {
				return fmt.Sprintf("accepted record %d is not a fixed point: written and read back it is %s, want %s", i, clip(got.String()), clip(want.String()))
			}
		}
		if !isErr && immediate.String() != out.String() {
			return "accepted records are not stable: a record changed after it was delivered (items encoded when yielded differ from the same items encoded after the iteration)"
		}
		return ""
	}})

var kTotalFastq = register(&Kind{Name: "total_fastq",
	Impl: func(in Val) Val {
		data, isErr := c11Stream(in)
		return totDeadline(func() Val { return fqItems(totStream(data, isErr), len(data)+8) })
	},
	Oracle: func(in, out Val) string {
		if _, msg := c11Common(in, out, false); msg != "" {
			return msg
		}
		data, isErr := c11Stream(in)
		i := 0
		immediate := Val{K: 'l'} // every item encoded at the moment it is yielded
		for fq, err := range fastq.Reader(totStream(data, isErr)) {
			if err != nil {
				immediate.L = append(immediate.L, L(I(1)))
				break
			}
			immediate.L = append(immediate.L, L(I(0), fqRecVal(fq.Name, fq.Sequence, fq.Quals)))
			i++
			if !fqFieldOK(fq.Name) || !fqFieldOK(fq.Sequence) || !fqFieldOK(fq.Quals) {
				continue
			}
			rec := &fastq.Fastq{Name: slices.Clone(fq.Name), Sequence: slices.Clone(fq.Sequence), Quals: slices.Clone(fq.Quals)}
			var buf bytes.Buffer
			if err := rec.Write(&buf); err != nil {
				return fmt.Sprintf("accepted record %d cannot be written", i)
			}
			want := L(L(I(0), fqRecVal(rec.Name, rec.Sequence, rec.Quals)))
			written := slices.Clone(buf.Bytes())
			if got := fqItems(&buf, 4); got.String() != want.String() {
				return fmt.Sprintf("accepted record %d is not a fixed point: written and read back it is %s, want %s", i, clip(got.String()), clip(want.String()))
			}
			if mt, ok := try1(func() []byte { b, _ := rec.MarshalText(); return b }); !ok || !bytes.Equal(mt, written) {
				return fmt.Sprintf("accepted record %d: MarshalText panics or differs from Write", i)
			}
		}
		if !isErr && immediate.String() != out.String() {
			return "accepted records are not stable: a record changed after it was delivered (items encoded when yielded differ from the same items encoded after the iteration)"
		}
		return ""
	}})

func totBedTextClean(b *bed.BED) bool {
	return cleanText(b.Chrom) && cleanText(b.Name) && cleanText(b.Strand)
}

var kTotalBed = register(&Kind{Name: "total_bed",
	Impl: func(in Val) Val {
		data, isErr := c11Stream(in)
		return totDeadline(func() Val { return bedItems(totStream(data, isErr), len(data)+8) })
	},
	Oracle: func(in, out Val) string {
		if _, msg := c11Common(in, out, false); msg != "" {
			return msg
		}
		data, isErr := c11Stream(in)
		i := 0
		for b, err := range bed.Reader(totStream(data, isErr)) {
			if err != nil {
				break
			}
			i++
			if !totBedTextClean(b) {
				continue
			}
			var buf bytes.Buffer
			if err := b.Write(&buf); err != nil {
				return fmt.Sprintf("accepted record %d cannot be written: %v", i, err)
			}
			if msg := bedReadBack(buf.Bytes(), []*bed.BED{b}); msg != "" {
				return fmt.Sprintf("accepted record %d is not a fixed point: %s", i, msg)
			}
		}
		return ""
	}})

var kTotalSam = register(&Kind{Name: "total_sam",
	Impl: func(in Val) Val {
		data, isErr := c11Stream(in)
		return totDeadline(func() Val { return samRunReaderHeader(data, isErr) })
	},
	Oracle: func(in, out Val) string {
		if _, msg := c11Common(in, out, false); msg != "" {
			return msg
		}
		data, isErr := c11Stream(in)
		i := 0
		for s, err := range sam.Reader(totStream(data, isErr)) {
			if err != nil {
				continue // ReaderHeader goes on after a malformed line
			}
			i++
			if !samInDomain(s) {
				continue
			}
			var buf bytes.Buffer
			if err := s.Write(&buf); err != nil {
				return fmt.Sprintf("accepted record %d cannot be written", i)
			}
			n := 0
			for t, err := range sam.Reader(bytes.NewReader(buf.Bytes())) {
				n++
				if err != nil {
					return fmt.Sprintf("accepted record %d is not a fixed point: its written form %q is rejected: %v", i, clipBytes(buf.Bytes()), err)
				}
				if n > 1 {
					break
				}
				if msg := samSame(s, t); msg != "" {
					return fmt.Sprintf("accepted record %d is not a fixed point (%q): %s", i, clipBytes(buf.Bytes()), msg)
				}
			}
			if n != 1 {
				return fmt.Sprintf("accepted record %d: its written form reads back as %d items", i, n)
			}
		}
		return ""
	}})

var kTotalNewick = register(&Kind{Name: "total_newick",
	Impl: func(in Val) Val {
		data, isErr := c11Stream(in)
		return totDeadline(func() Val {
			_, v := readItems(data, isErr)
			return vOk(v)
		})
	},
	Oracle: func(in, out Val) string {
		items, msg := c11Common(in, out, true)
		if msg != "" {
			return msg
		}
		for i, it := range items {
			if it.At(0).Int() == 1 {
				continue
			}
			// -0 is a zero distance: it is not written and reads back as 0 (sameTree)
			if m := roundTripMsg([]*gTree{valTree(it.At(1))}, nil); m != "" {
				return fmt.Sprintf("accepted tree %d is not a fixed point: %s", i, m)
			}
		}
		return ""
	}})

var kTotalSmtext = register(&Kind{Name: "total_smtext",
	Impl: func(in Val) Val {
		data, isErr := c11Stream(in)
		return totDeadline(func() Val {
			var r io.Reader = bytes.NewReader(data)
			if isErr {
				r = &faultReader{data: data, forever: true}
			}
			m, err := smtext.ReadNCBI(r)
			if err != nil {
				if m != nil {
					return L(I(3), S("a matrix was returned together with an error"))
				}
				return vErr
			}
			return vOk(smMatrixVal(m, false))
		})
	},
	Oracle: func(in, out Val) string {
		if isPanic(out) {
			return "ReadNCBI panicked"
		}
		if !isOk(out) && !isErrOut(out) {
			return "ReadNCBI: " + clip(out.String())
		}
		return ""
	}})

// ---- sam_lines ------------------------------------------------------------------------

const (
	clsEmpty  = 0
	clsHeader = 1
	clsRecord = 2
	clsError  = 3
)

func totSamItemClass(it Val) int {
	if totIsErrItem(it) {
		return clsError
	}
	if it.At(1).At(0).Int() == 0 {
		return clsHeader
	}
	return clsRecord
}

func totSamLinesText(lines [][]byte) []byte {
	var buf bytes.Buffer
	for _, l := range lines {
		buf.Write(l)
		buf.WriteByte('\n')
	}
	return buf.Bytes()
}

var kSamLines = register(&Kind{Name: "sam_lines",
	Impl: func(in Val) Val {
		text := totSamLinesText(in.At(0).BytesList())
		return totDeadline(func() Val { return samRunReaderHeader(text, false) })
	},
	Oracle: func(in, out Val) string {
		if isPanic(out) {
			return "ReaderHeader panicked"
		}
		if out.K != 'l' {
			return "ReaderHeader: " + clip(out.String())
		}
		lines := in.At(0).BytesList()
		for _, l := range lines {
			if bytes.ContainsAny(l, "\r\n") {
				return "" // outside the kind's domain
			}
		}
		classes := in.At(2).List()
		// each line alone
		var want []Val
		for i, l := range lines {
			alone := samRunReaderHeader(append(slices.Clone(l), '\n'), false)
			if alone.K != 'l' || len(alone.L) > 1 {
				return fmt.Sprintf("line %d alone gives %s", i, clip(alone.String()))
			}
			if len(l) == 0 && len(alone.L) != 0 {
				return fmt.Sprintf("the empty line %d gives an item", i)
			}
			if len(l) > 0 && len(alone.L) != 1 {
				return fmt.Sprintf("the non-empty line %d alone gives no item", i)
			}
			if len(classes) == len(lines) {
				cls := clsEmpty
				if len(alone.L) == 1 {
					cls = totSamItemClass(alone.L[0])
				}
				if cls != classes[i].Int() {
					return fmt.Sprintf("line %d (%q) alone is of class %d, the generator made it class %d", i, clipBytes(l), cls, classes[i].Int())
				}
			}
			want = append(want, alone.L...)
		}
		got := out.L
		if len(got) != len(want) {
			return fmt.Sprintf("the file gives %d items, its lines one by one give %d", len(got), len(want))
		}
		for i := range got {
			if got[i].String() != want[i].String() {
				return fmt.Sprintf("item %d of the file differs from what its line gives alone: a neighbour of a line is not intact", i)
			}
		}
		// the same through the other three entry points: Reader, File, FileHeader
		text := totSamLinesText(lines)
		rd := samRunReader(text, false)
		if rd.K != 'l' {
			return "Reader: " + clip(rd.String())
		}
		var wantRec []Val // records and errors of the per-line results, headers dropped
		for _, it := range want {
			if totSamItemClass(it) != clsHeader {
				if it.String() == samErrItem.String() {
					wantRec = append(wantRec, samErrItem)
				} else {
					wantRec = append(wantRec, L(I(0), it.At(1).At(1)))
				}
			}
		}
		if samItemsVal(wantRec).String() != rd.String() {
			return "sam.Reader does not give, line by line, the records and errors of the lines (a malformed line must yield one error and leave its neighbours intact)"
		}
		dir, err := os.MkdirTemp("", "verif-c11-")
		if err != nil {
			panic(badCase("cannot create a temp dir"))
		}
		defer os.RemoveAll(dir)
		path := filepath.Join(dir, "in.sam")
		if err := os.WriteFile(path, text, 0o644); err != nil {
			panic(badCase("cannot write the temp file"))
		}
		var fileItems, fileHdrItems []Val
		for s, err := range sam.File(path) {
			if err != nil {
				fileItems = append(fileItems, samErrItem)
			} else {
				fileItems = append(fileItems, samRecOnly(s))
			}
			if len(fileItems) > len(text)+10 {
				break
			}
		}
		for sh, err := range sam.FileHeader(path) {
			switch {
			case err != nil:
				fileHdrItems = append(fileHdrItems, samErrItem)
			case sh.H != nil:
				fileHdrItems = append(fileHdrItems, samHdrItem(*sh.H))
			default:
				fileHdrItems = append(fileHdrItems, samRecItem(sh.S))
			}
			if len(fileHdrItems) > len(text)+10 {
				break
			}
		}
		if samItemsVal(fileItems).String() != rd.String() {
			return "sam.File does not give what sam.Reader gives on the same lines"
		}
		if samItemsVal(fileHdrItems).String() != out.String() {
			return "sam.FileHeader does not give what sam.ReaderHeader gives on the same lines"
		}
		return ""
	}})

// ---- C11 generators --------------------------------------------------------------------

// mutate applies one grammar-aware mutation: on bytes, on fields (pieces between
// fieldSep bytes inside a line) or on lines.
func (c *Ctx) totMutate(text []byte, fieldSeps string, delims []byte) ([]byte, string) {
	t := slices.Clone(text)
	if len(t) == 0 {
		return []byte{delims[c.Intn(len(delims))]}, "mut/splice-delimiter"
	}
	splitKeep := func(s []byte, seps string) [][]byte { // pieces, each with its terminating separator
		var r [][]byte
		start := 0
		for i, b := range s {
			if strings.IndexByte(seps, b) >= 0 {
				r = append(r, s[start:i+1])
				start = i + 1
			}
		}
		if start < len(s) {
			r = append(r, s[start:])
		}
		return r
	}
	join := func(ps [][]byte) []byte { return bytes.Join(ps, nil) }
	pieceOp := func(ps [][]byte, what string) ([]byte, string) {
		if len(ps) == 0 {
			return t, "mut/none"
		}
		i := c.Intn(len(ps))
		switch c.Intn(3) {
		case 0:
			return join(slices.Delete(slices.Clone(ps), i, i+1)), "mut/delete-" + what
		case 1:
			return join(slices.Insert(slices.Clone(ps), i, ps[i])), "mut/duplicate-" + what
		}
		j := c.Intn(len(ps))
		q := slices.Clone(ps)
		q[i], q[j] = q[j], q[i]
		return join(q), "mut/swap-" + what
	}
	switch c.Intn(8) {
	case 0:
		i := c.Intn(len(t))
		return slices.Delete(t, i, i+1), "mut/delete-byte"
	case 1:
		i := c.Intn(len(t))
		return slices.Insert(t, i, t[i]), "mut/duplicate-byte"
	case 2:
		i, j := c.Intn(len(t)), c.Intn(len(t))
		t[i], t[j] = t[j], t[i]
		return t, "mut/swap-bytes"
	case 3:
		return pieceOp(splitKeep(t, fieldSeps+"\n"), "field")
	case 4:
		return pieceOp(splitKeep(t, "\n"), "line")
	case 5:
		i := c.Intn(len(t) + 1)
		return slices.Insert(t, i, delims[c.Intn(len(delims))]), "mut/splice-delimiter"
	case 6:
		return t[:c.Intn(len(t))], "mut/truncate"
	}
	i := c.Intn(len(t))
	t[i] = byte(c.Intn(256))
	return t, "mut/replace-byte"
}

func (c *Ctx) totMutateN(text []byte, fieldSeps string, delims []byte) ([]byte, string) {
	t, strat := c.totMutate(text, fieldSeps, delims)
	for k := c.Choose(0, 0, 0, 1, 2); k > 0; k-- {
		t, _ = c.totMutate(t, fieldSeps, delims)
		strat = "mut/several"
	}
	return t, strat
}

func (c *Ctx) totUniformBytes() []byte {
	return c.RandBytes(c.Choose(0, 1, 2, 3, 5, 8, 16, 40, 100, 300), nil)
}

func totSmOracle(data []byte) Val { return smCase(data, false, smNoTruth).At(2) }

// totSamValidLine: a record line, a header line or an empty line; the class.
func (c *Ctx) totSamValidLine() ([]byte, int) {
	switch c.Intn(6) {
	case 0:
		return []byte([]string{"@HD\tVN:1.6\tSO:coordinate", "@CO\t\"quoted\" text", "@", "@SQ\tSN:chr1\tLN:100"}[c.Intn(4)]), clsHeader
	case 1:
		return nil, clsEmpty
	}
	for {
		s := c.samRecord()
		line := bytes.TrimSuffix(samText(s), []byte("\n"))
		if !bytes.ContainsAny(line, "\r\n") && len(bytes.Split(line, []byte("\t"))) == 11+len(s.Tags) && !strings.HasPrefix(s.Qname, "@") && samInDomain(s) {
			return line, clsRecord
		}
	}
}

// totSamCorruptions: every kind of single-line corruption of a record line.
func totSamCorruptions(line []byte) (out [][]byte, kinds []string) {
	f := strings.Split(string(line), "\t")
	add := func(kind string, fs []string) {
		out = append(out, []byte(strings.Join(fs, "\t")))
		kinds = append(kinds, kind)
	}
	base := slices.Clone(f[:11])
	for k := 1; k <= 10; k++ { // too few fields (one field that is not a header: 1..10)
		add(fmt.Sprintf("too-few-fields/%d", k), f[:k])
	}
	for _, idx := range []int{1, 3, 4, 7, 8} {
		for _, bad := range []string{"", "x", "1.5", "9223372036854775808", "1 ", "0x10"} {
			g := slices.Clone(f)
			g[idx] = bad
			add(fmt.Sprintf("non-numeric-int/field%d", idx), g)
		}
	}
	for _, tag := range []string{"XX", "XX:i", ":", "XX:Q:1", "XX:ii:5", "XX::5", "XX:A:ab", "XX:A:", "XX:i:abc", "XX:i:", "XX:i:1.5",
		"XX:f:abc", "XX:f:", "XX:f:1e", "XX:H:abc", "XX:H:zz", "XX:H:0g", ""} {
		add("bad-tag/"+tag, append(slices.Clone(base), tag))
		add("bad-tag-after-good/"+tag, append(slices.Clone(base), "NM:i:1", tag))
		add("bad-tag-before-good/"+tag, append(slices.Clone(base), tag, "NM:i:1"))
	}
	return
}

func init() {
	registerProp("C11", "per format (fasta, fastq, sam, bed, newick, smtext): uniform random bytes of length 0..300 with EOF and with a failing stream; grammar-aware mutation of valid files made by the family generators (delete / duplicate / swap a byte, a field, a line; splice a delimiter byte; replace a byte; truncate; one to three mutations); the valid files themselves; for SAM exhaustively every single-line corruption kind (1..10 fields; six non-numeric texts in each of the five integer fields; 18 ill-formed / ill-typed tags alone, after and before a good tag) at every line position of valid 1..5-line files (records, headers, empty lines), checked line by line against the same lines read alone; non-trivial = a non-empty input (sam_lines: a file with a corrupted line)", func(c *Ctx) {
		type fmtGen struct {
			name      string
			kind      *Kind
			valid     func() []byte
			fieldSeps string
			delims    []byte
			oracle    func([]byte) *Val
		}
		none := func([]byte) *Val { return nil }
		samText1 := func() []byte { t, _ := c.c18SamText(); return t }
		gens := []fmtGen{
			{"fasta", kTotalFasta, func() []byte { t, _ := c.c18FastaText(); return t }, "", []byte(">\n\r>"), none},
			{"fastq", kTotalFastq, func() []byte { t, _ := c.c18FastqText(); return t }, "", []byte("@+\n\r"), none},
			{"bed", kTotalBed, func() []byte { t, _ := c.c18BedText(); return t }, "\t,", []byte("\t\n\r,#\""), none},
			{"sam", kTotalSam, samText1, "\t:", []byte("\t\n\r:@\""), func(d []byte) *Val { v := totSamOracle(d); return &v }},
			{"newick", kTotalNewick, func() []byte { t, _ := c.c18NewickText(); return t }, "(),:;", []byte("(),:;' \n"), func(d []byte) *Val { v := inputOracleVal(d); return &v }},
			{"smtext", kTotalSmtext, func() []byte {
				t := c.smTable(1+c.Intn(5), 1+c.Intn(5), c.Intn(4) > 0, c.Intn(4))
				return c.smRender(t.lines(), c.Intn(4), false)
			}, " \t", []byte(" \t\n\r#*"), func(d []byte) *Val { v := totSmOracle(d); return &v }},
		}
		run := func(g fmtGen, data []byte, isErr bool, strata ...string) {
			in := L(B(data), termVal(isErr))
			if o := g.oracle(data); o != nil {
				in = L(B(data), termVal(isErr), *o)
			}
			c.Run(g.kind, in, len(data) > 0, append(strata, g.name)...)
		}
		nU, nM := c.Pick(500, 6000), c.Pick(900, 10000)
		for _, g := range gens {
			// many small records, stream longer than the readers' buffers (records are
			// retained until the end of the iteration), and one very long line
			if g.name != "smtext" {
				for _, total := range []int{6000, 140000} {
					if g.name == "newick" && total > 40000 {
						continue
					}
					if d := manyRecordsText(c, g.name, total); d != nil {
						run(g, d, false, "many-records")
					}
				}
				for _, ln := range []int{4097, 70000} {
					if g.name == "newick" && ln > 8192 {
						continue
					}
					if d := streamLongLine(c, g.name, ln); d != nil {
						run(g, d, false, "long-line")
					}
				}
			}
			for _, t := range []string{"", "\n", "\r", "\r\n", "\t", ">", "@", "+", ";", "(", ")", ":", "'", "#", "*", "\x00", "\xff"} {
				run(g, []byte(t), false, "literal")
				run(g, []byte(t), true, "literal")
			}
			for i := 0; i < nU; i++ {
				run(g, c.totUniformBytes(), c.Intn(4) == 0, "uniform-bytes")
			}
			for i := 0; i < nM; i++ {
				v := g.valid()
				if i%6 == 0 {
					run(g, v, c.Intn(6) == 0, "valid-file")
					continue
				}
				m, strat := c.totMutateN(v, g.fieldSeps, g.delims)
				run(g, m, c.Intn(6) == 0, strat)
			}
		}
		// --- loosely valid BED lines of every width (odd integers, RGB lists of 1..4 parts,
		// block lists that disagree with the count)
		for i := 0; i < nM/2; i++ {
			var sb strings.Builder
			w := 1 + c.Intn(14)
			for j := 1 + c.Intn(3); j > 0; j-- {
				if c.Intn(4) == 0 {
					w = 1 + c.Intn(14)
				}
				sb.WriteString(c.bedLooseLine(w))
				sb.WriteString([]string{"\n", "\n", "\r\n", ""}[c.Intn(4)])
			}
			run(gens[2], []byte(sb.String()), c.Intn(8) == 0, "bed/loose-lines")
		}
		// --- BED: every field of a valid line replaced by each of a list of odd texts
		bedOdd := []string{"", "x", "+", "++", "-5", "+5", "1.5", "1,2", "1,2,3", "1,2,3,4", "0x10,1,1", "256,0,0", "1,2,", ",", "9223372036854775808", "#", "0", " 1"}
		for i := 0; i < c.Pick(12, 100); i++ {
			n := 3 + c.Intn(10)
			if i%2 == 0 {
				n = 12
			}
			mt, _ := c.bedRecord(n).MarshalText()
			f := strings.Split(strings.TrimSuffix(string(mt), "\n"), "\t")
			for k := range f {
				for _, odd := range bedOdd {
					g := slices.Clone(f)
					g[k] = odd
					run(gens[2], []byte(strings.Join(g, "\t")+"\n"), false, "bed/field-replaced")
				}
			}
		}
		// --- every byte value inside a text field / a tag value / a name, in hand-written
		// text (not produced by the library's writers)
		for b := 0; b < 256; b++ {
			x := string([]byte{byte(b)})
			for _, t := range []string{">a" + x + "b\nAC" + x + "GT\n", ">" + x + "\n" + x + "\n"} {
				run(gens[0], []byte(t), false, "byte-sweep")
			}
			for _, t := range []string{"@r" + x + "\nA" + x + "C\n+\nI" + x + "I\n", "@" + x + "\n" + x + "\n+" + x + "\n" + x + "\n"} {
				run(gens[1], []byte(t), false, "byte-sweep")
			}
			for _, t := range []string{"c" + x + "\t1\t2\tn" + x + "m\t0\t+\n", x + "\t1\t2\n", "c\t1\t2\tn\t0\t" + x + "\n", "c\t1\t2\tn\t0\t+\t1\t2\t1," + x + ",3\n"} {
				run(gens[2], []byte(t), false, "byte-sweep")
			}
			rec := "q" + x + "\t0\tr" + x + "\t0\t0\t*\t*\t0\t0\tA" + x + "\t" + x + "I"
			for _, t := range []string{rec + "\n", rec + "\tXX:A:" + x + "\n", rec + "\tXX:A:" + x + "\tYY:i:1\n", rec + "\tXX:Z:a" + x + "\tX" + x + ":i:1\n",
				rec + "\tXX:" + x + ":1\n", rec + "\tXX:H:0" + x + "\n", x + rec + "\n"} {
				run(gens[3], []byte(t), false, "byte-sweep")
			}
			for _, t := range []string{"(a" + x + "b,c):1;", "'" + x + "';", "(" + x + ")" + x + ";", "a:1" + x + ";", "a:" + x + ";"} {
				run(gens[4], []byte(t), false, "byte-sweep")
			}
			for _, t := range []string{" A " + x + "\nA 1 2\n" + x + " 3 4\n", "# c\n A C\nA 1 " + x + "\nC 2 3\n"} {
				run(gens[5], []byte(t), false, "byte-sweep")
			}
		}
		c.Exhaustive("all 256 byte values inside names / text fields / tag names, types and values / RGB parts / distances / labels of hand-written one-record inputs of each format")
		// --- SAM: every corruption kind at every line position of valid 1..5-line files
		nFiles := c.Pick(2, 12)
		for n := 1; n <= 5; n++ {
			for f := 0; f < nFiles; f++ {
				lines := make([][]byte, n)
				classes := make([]int, n)
				for i := range lines {
					lines[i], classes[i] = c.totSamValidLine()
				}
				o := totSamOracle(totSamLinesText(lines))
				c.Run(kSamLines, L(BL(lines), o, IL(classes)), false, "sam-lines/valid", fmt.Sprintf("sam-lines/n=%d", n))
				for pos := 0; pos < n; pos++ {
					// the line that is corrupted is a record line
					var rec []byte
					for {
						var cls int
						if rec, cls = c.totSamValidLine(); cls == clsRecord {
							break
						}
					}
					cors, kinds := totSamCorruptions(rec)
					for j, cor := range cors {
						ls := slices.Clone(lines)
						cl := slices.Clone(classes)
						ls[pos], cl[pos] = cor, clsError
						if len(cor) == 0 {
							cl[pos] = clsEmpty
						}
						o := totSamOracle(totSamLinesText(ls))
						kind := kinds[j]
						if i := strings.IndexByte(kind, '/'); i >= 0 {
							kind = kind[:i]
						}
						c.Run(kSamLines, L(BL(ls), o, IL(cl)), true, "sam-lines/corrupted", "sam-lines/"+kind, fmt.Sprintf("sam-lines/n=%d,pos=%d", n, pos))
					}
				}
			}
		}
		c.Exhaustive("SAM: every corruption kind of the list (too few fields 1..10, 6 bad texts x 5 integer fields, 18 bad tags x 3 placements) at every line position of each generated valid file of 1..5 lines")
		// random line lists, unclassified
		for i := 0; i < c.Pick(600, 6000); i++ {
			var lines [][]byte
			for j := c.Intn(6); j > 0; j-- {
				if c.Intn(2) == 0 {
					l, _ := c.totSamValidLine()
					lines = append(lines, l)
				} else {
					b, _ := c.samMalformed()
					b = bytes.ReplaceAll(bytes.ReplaceAll(b, []byte("\n"), []byte(" ")), []byte("\r"), []byte(" "))
					lines = append(lines, b)
				}
			}
			c.Run(kSamLines, L(BL(lines), totSamOracle(totSamLinesText(lines)), L()), len(lines) > 0, "sam-lines/random")
		}
	})
}

var _ = strconv.Itoa
