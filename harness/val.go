package main

// The universal case value of the correspondence protocol (coq/Base.v [val]).
// Text: i<decimal> | x<hex> | [v v v]

import (
	"encoding/hex"
	"fmt"
	"strconv"
	"strings"
)

type Val struct {
	K byte // 'i', 'x', 'l'
	I int64
	B []byte
	L []Val
}

func I(n int) Val     { return Val{K: 'i', I: int64(n)} }
func B(b []byte) Val  { return Val{K: 'x', B: append([]byte(nil), b...)} }
func S(s string) Val  { return Val{K: 'x', B: []byte(s)} }
func L(vs ...Val) Val { return Val{K: 'l', L: append([]Val(nil), vs...)} }
func Bool(b bool) Val {
	if b {
		return I(1)
	}
	return I(0)
}
func BL(bs [][]byte) Val {
	r := Val{K: 'l'}
	for _, b := range bs {
		r.L = append(r.L, B(b))
	}
	return r
}
func IL(is []int) Val {
	r := Val{K: 'l'}
	for _, i := range is {
		r.L = append(r.L, I(i))
	}
	return r
}

var (
	vErr   = L(I(1))
	vPanic = L(I(2))
)

func vOk(v Val) Val { return L(I(0), v) }

func (v Val) write(sb *strings.Builder) {
	switch v.K {
	case 'i':
		sb.WriteByte('i')
		sb.WriteString(strconv.FormatInt(v.I, 10))
	case 'x':
		sb.WriteByte('x')
		sb.WriteString(hex.EncodeToString(v.B))
	case 'l':
		sb.WriteByte('[')
		for i, e := range v.L {
			if i > 0 {
				sb.WriteByte(' ')
			}
			e.write(sb)
		}
		sb.WriteByte(']')
	default:
		panic("bad val")
	}
}

func (v Val) String() string {
	sb := &strings.Builder{}
	v.write(sb)
	return sb.String()
}

func ParseVal(s string) (Val, error) {
	v, rest, err := parseVal(s)
	if err != nil {
		return Val{}, err
	}
	if strings.TrimSpace(rest) != "" {
		return Val{}, fmt.Errorf("trailing text %q", rest)
	}
	return v, nil
}

func parseVal(s string) (Val, string, error) {
	s = strings.TrimLeft(s, " ")
	if s == "" {
		return Val{}, "", fmt.Errorf("empty")
	}
	switch s[0] {
	case 'i':
		j := 1
		for j < len(s) && (s[j] == '-' || (s[j] >= '0' && s[j] <= '9')) {
			j++
		}
		n, err := strconv.ParseInt(s[1:j], 10, 64)
		if err != nil {
			return Val{}, "", err
		}
		return Val{K: 'i', I: n}, s[j:], nil
	case 'x':
		j := 1
		for j < len(s) && strings.IndexByte("0123456789abcdef", s[j]) >= 0 {
			j++
		}
		b, err := hex.DecodeString(s[1:j])
		if err != nil {
			return Val{}, "", err
		}
		return Val{K: 'x', B: b}, s[j:], nil
	case '[':
		r := Val{K: 'l'}
		s = s[1:]
		for {
			s = strings.TrimLeft(s, " ")
			if s == "" {
				return Val{}, "", fmt.Errorf("unterminated list")
			}
			if s[0] == ']' {
				return r, s[1:], nil
			}
			e, rest, err := parseVal(s)
			if err != nil {
				return Val{}, "", err
			}
			r.L = append(r.L, e)
			s = rest
		}
	}
	return Val{}, "", fmt.Errorf("bad val at %q", s)
}

// Accessors used by the Impl functions to decode a case. They panic with
// badCase on a malformed case (a harness bug, not an implementation panic).
type badCase string

func (v Val) Int() int {
	if v.K != 'i' {
		panic(badCase("want int: " + v.String()))
	}
	return int(v.I)
}
func (v Val) Bytes() []byte {
	if v.K != 'x' {
		panic(badCase("want bytes: " + v.String()))
	}
	return append([]byte{}, v.B...)
}
func (v Val) Str() string { return string(v.Bytes()) }
func (v Val) List() []Val {
	if v.K != 'l' {
		panic(badCase("want list: " + v.String()))
	}
	return v.L
}
func (v Val) At(i int) Val {
	l := v.List()
	if i >= len(l) {
		panic(badCase("short list: " + v.String()))
	}
	return l[i]
}
func (v Val) BytesList() [][]byte {
	var r [][]byte
	for _, e := range v.List() {
		r = append(r, e.Bytes())
	}
	return r
}
func (v Val) IntList() []int {
	var r []int
	for _, e := range v.List() {
		r = append(r, e.Int())
	}
	return r
}
