package main

// Package formats/newick: C05 (write -> read round trip, names that need
// quoting) and C19 (traversals). Kinds mirror coq/Corr/NewickCorr.v.
//
// A tree travels as [name dist [children...]] with dist the canonical float
// text (helpers.go canonF). nameToText/nameFromText are unexported and are
// exercised through MarshalText/Reader of a single-node tree.

import (
	"bytes"
	"fmt"
	"io"
	"iter"
	"math"
	"slices"
	"strconv"
	"strings"

	"github.com/fluhus/biostuff/formats/newick"
)

const newickDelims = "(),:;' \t\n\r"

// gTree is the harness's own tree (generators and reference computations work
// on it, never on newick.Node).
type gTree struct {
	name string
	dist float64
	kids []*gTree
}

func (g *gTree) size() int {
	n := 1
	for _, k := range g.kids {
		n += k.size()
	}
	return n
}

func (g *gTree) clone() *gTree {
	r := &gTree{name: g.name, dist: g.dist}
	for _, k := range g.kids {
		r.kids = append(r.kids, k.clone())
	}
	return r
}

func (g *gTree) each(f func(*gTree)) {
	f(g)
	for _, k := range g.kids {
		k.each(f)
	}
}

func treeVal(g *gTree) Val {
	kids := Val{K: 'l'}
	for _, k := range g.kids {
		kids.L = append(kids.L, treeVal(k))
	}
	return L(S(g.name), S(canonF(g.dist)), kids)
}

func valTree(v Val) *gTree {
	d, err := strconv.ParseFloat(v.At(1).Str(), 64)
	if err != nil {
		panic(badCase("bad distance text: " + v.At(1).Str()))
	}
	g := &gTree{name: v.At(0).Str(), dist: d}
	for _, k := range v.At(2).List() {
		g.kids = append(g.kids, valTree(k))
	}
	return g
}

func toNode(g *gTree) *newick.Node {
	n := &newick.Node{Name: g.name, Distance: g.dist}
	if len(g.kids) == 0 && len(g.name)%2 == 1 {
		n.Children = []*newick.Node{} // empty, not nil: still "no children"
	}
	for _, k := range g.kids {
		n.Children = append(n.Children, toNode(k))
	}
	return n
}

func nodeVal(n *newick.Node) Val {
	kids := Val{K: 'l'}
	for _, k := range n.Children {
		kids.L = append(kids.L, nodeVal(k))
	}
	return L(S(n.Name), S(canonF(n.Distance)), kids)
}

// sameTree: identical shape, names and branch lengths (0 and -0 mean "none",
// NaN equals NaN). Returns "" or where they differ.
func sameTree(want *gTree, got *newick.Node, where string) string {
	if got == nil {
		return where + ": nil node"
	}
	if want.name != got.Name {
		return fmt.Sprintf("%s: name %q read back as %q", where, want.name, got.Name)
	}
	if !sameF(want.dist, got.Distance) {
		return fmt.Sprintf("%s: distance %v read back as %v", where, want.dist, got.Distance)
	}
	if want.dist == 0 && math.Signbit(got.Distance) {
		return where + ": zero distance read back as -0"
	}
	if len(want.kids) != len(got.Children) {
		return fmt.Sprintf("%s: %d children read back as %d", where, len(want.kids), len(got.Children))
	}
	for i := range want.kids {
		if m := sameTree(want.kids[i], got.Children[i], fmt.Sprintf("%s.%d", where, i)); m != "" {
			return m
		}
	}
	return ""
}

func newickFmtOracle() *FloatOracle {
	return newFloatOracle(func(x float64) string { return fmt.Sprint(x) })
}

// checks H1/H2 of DESIGN.md section 3 on a float the case uses
func floatContract(x float64) string {
	t := fmt.Sprint(x)
	y, err := strconv.ParseFloat(t, 64)
	if err != nil || !sameF(x, y) {
		return fmt.Sprintf("float contract H1 fails for %v", x)
	}
	if t == "" || bytes.ContainsAny([]byte(t), newickDelims) {
		return fmt.Sprintf("float contract H2 fails for %v", x)
	}
	return ""
}

func treeOracleVal(ts ...*gTree) Val {
	o := newickFmtOracle()
	for _, t := range ts {
		t.each(func(g *gTree) { o.Float(g.dist) })
	}
	return o.Val()
}

func inputOracleVal(data []byte) Val {
	o := newickFmtOracle()
	for _, run := range splitRuns(data, newickDelims) {
		o.Token(run)
	}
	return o.Val()
}

// readItems runs newick.Reader to the end (with a cap) and returns the items and
// their projected value.
type nwItem struct {
	n   *newick.Node
	err error
}

func readItems(data []byte, isErr bool) ([]nwItem, Val) {
	var r io.Reader = bytes.NewReader(data)
	if isErr {
		r = &faultReader{data: data}
	}
	var items []nwItem
	v := Val{K: 'l'}
	for n, err := range newick.Reader(r) {
		items = append(items, nwItem{n, err})
		if err != nil {
			v.L = append(v.L, L(I(1)))
		} else {
			v.L = append(v.L, L(I(0), nodeVal(n)))
		}
		if len(items) > len(data)+5 {
			break
		}
	}
	return items, v
}

// condensedMsg: no whitespace outside quoted stretches, ends with ';'.
func condensedMsg(txt []byte) string {
	if len(txt) == 0 || txt[len(txt)-1] != ';' {
		return "written form does not end with ';'"
	}
	inq := false
	for i, b := range txt {
		if b == '\'' {
			inq = !inq
			continue
		}
		if !inq && (b == ' ' || b == '\t' || b == '\n' || b == '\r') {
			return fmt.Sprintf("whitespace outside a quoted name at offset %d", i)
		}
	}
	if inq {
		return "unbalanced quotes in written form"
	}
	return ""
}

func marshalBoth(n *newick.Node) ([]byte, string) {
	poisonWriters(func(w io.Writer) error {
		return (&newick.Node{Name: "poison", Children: []*newick.Node{{Name: "lost", Distance: 1}, {Name: "tree"}}}).Write(w)
	})
	txt, err := n.MarshalText()
	if err != nil {
		return nil, "MarshalText error"
	}
	if !marshalKeeps(txt, func() {
		(&newick.Node{Name: "another tree", Distance: 2.5, Children: []*newick.Node{{Name: strings.Repeat("T", 200)}, {Name: "x"}}}).MarshalText()
	}) {
		return nil, "a MarshalText result is overwritten by later MarshalText calls"
	}
	var buf bytes.Buffer
	if err := n.Write(&buf); err != nil {
		return nil, "Write error"
	}
	if !bytes.Equal(buf.Bytes(), txt) {
		return nil, "Write and MarshalText differ"
	}
	return txt, ""
}

// roundTripMsg writes the trees with the separators, reads them back and
// compares: the C05 property evaluated on the implementation.
func roundTripMsg(ts []*gTree, seps []string) string {
	var buf bytes.Buffer
	for i, t := range ts {
		var m string
		t.each(func(g *gTree) {
			if g.dist != 0 && m == "" {
				m = floatContract(g.dist)
			}
		})
		if m != "" {
			return m
		}
		txt, msg := marshalBoth(toNode(t))
		if msg != "" {
			return msg
		}
		if m := condensedMsg(txt); m != "" {
			return fmt.Sprintf("tree %d: %s", i, m)
		}
		buf.Write(txt)
		if i < len(seps) {
			buf.WriteString(seps[i])
		}
	}
	items, _ := readItems(buf.Bytes(), false)
	for i, it := range items {
		if it.err != nil {
			return fmt.Sprintf("reading back: item %d is an error: %v", i, it.err)
		}
		if i >= len(ts) {
			return fmt.Sprintf("read back %d trees, wrote %d", len(items), len(ts))
		}
		if m := sameTree(ts[i], it.n, fmt.Sprintf("tree %d", i)); m != "" {
			return m
		}
	}
	if len(items) != len(ts) {
		return fmt.Sprintf("read back %d trees, wrote %d", len(items), len(ts))
	}
	return ""
}

var kNwWrite = register(&Kind{Name: "newick_write",
	Impl: func(in Val) Val {
		txt, msg := marshalBoth(toNode(valTree(in.At(0))))
		if msg != "" {
			return L(I(3), S(msg))
		}
		return vOk(B(txt))
	},
	Oracle: func(in, out Val) string {
		if !isOk(out) {
			return "write failed: " + out.String()
		}
		if m := condensedMsg(out.At(1).Bytes()); m != "" {
			return m
		}
		return roundTripMsg([]*gTree{valTree(in.At(0))}, nil)
	}})

var kNwDecode = register(&Kind{Name: "newick_decode",
	Impl: func(in Val) Val {
		_, v := readItems(in.At(0).Bytes(), in.At(1).Int() == 1)
		return vOk(v)
	},
	Oracle: func(in, out Val) string {
		// every tree the reader accepts survives write -> read
		if !isOk(out) {
			return "reader panicked: " + out.String()
		}
		items := out.At(1).List()
		for i, it := range items {
			if it.At(0).Int() == 1 {
				if i != len(items)-1 {
					return "an item follows an error item"
				}
				continue
			}
			g := valTree(it.At(1))
			if m := roundTripMsg([]*gTree{g}, nil); m != "" {
				return fmt.Sprintf("accepted tree %d: %s", i, m)
			}
		}
		return ""
	}})

func seqParts(in Val) ([]*gTree, []string) {
	var ts []*gTree
	for _, tv := range in.At(0).List() {
		ts = append(ts, valTree(tv))
	}
	var seps []string
	for _, s := range in.At(1).BytesList() {
		seps = append(seps, string(s))
	}
	return ts, seps
}

var kNwSeq = register(&Kind{Name: "newick_seq",
	Impl: func(in Val) Val {
		ts, seps := seqParts(in)
		var buf bytes.Buffer
		for i, t := range ts {
			if err := toNode(t).Write(&buf); err != nil {
				return L(I(3), S("Write error"))
			}
			if i < len(seps) {
				buf.WriteString(seps[i])
			}
		}
		_, v := readItems(buf.Bytes(), false)
		return L(B(buf.Bytes()), vOk(v))
	},
	Oracle: func(in, out Val) string {
		ts, seps := seqParts(in)
		if out.K != 'l' || len(out.L) != 2 {
			return "panic or failed write: " + out.String()
		}
		return roundTripMsg(ts, seps)
	}})

// nameContext reads text and returns the single tree, or nil.
func readOne(txt string) *newick.Node {
	items, _ := readItems([]byte(txt), false)
	if len(items) != 1 || items[0].err != nil {
		return nil
	}
	return items[0].n
}

var kNwName = register(&Kind{Name: "newick_name",
	Impl: func(in Val) Val {
		s := in.Str()
		txt, msg := marshalBoth(&newick.Node{Name: s})
		if msg != "" || len(txt) == 0 {
			return L(I(3), S(msg))
		}
		items, v := readItems(txt, false)
		back := []byte("<not one tree>")
		if len(items) == 1 && items[0].err == nil {
			back = []byte(items[0].n.Name)
		}
		t := txt[:len(txt)-1]
		return L(B(t), B(back), B(t), vOk(v))
	},
	Oracle: func(in, out Val) string {
		s := in.Str()
		if out.K != 'l' || len(out.L) != 4 {
			return "panic or failed write: " + out.String()
		}
		if m := roundTripMsg([]*gTree{{name: s}}, nil); m != "" {
			return m
		}
		t := out.At(0).Str()
		// the written name is exactly one token in every context the writer
		// produces: before ',' ')' ':' ';' and after '(' ','
		n := readOne("(" + t + ",x," + t + ")" + t + ":2.5;")
		if n == nil || n.Name != s || n.Distance != 2.5 || len(n.Children) != 3 ||
			n.Children[0].Name != s || n.Children[1].Name != "x" || n.Children[2].Name != s ||
			len(n.Children[0].Children) != 0 || len(n.Children[2].Children) != 0 {
			return "the written name is not read as one name token inside a tree"
		}
		return ""
	}})

// ---- traversals -------------------------------------------------------------

// leafStyle: how a node without children is represented. Both are "no children"
// (the Go documentation of Node says Children "may be nil"); the harness alternates.
var leafStyle int

func buildWithPaths(g *gTree, p []int, paths map[*newick.Node][]int) *newick.Node {
	n := &newick.Node{Name: g.name, Distance: g.dist}
	if len(g.kids) == 0 && leafStyle%2 == 1 {
		n.Children = make([]*newick.Node, 0, len(p)%3) // empty but not nil, with or without spare capacity
	}
	paths[n] = append([]int(nil), p...)
	for i, k := range g.kids {
		n.Children = append(n.Children, buildWithPaths(k, append(p, i), paths))
	}
	return n
}

func samePaths(n *newick.Node, p []int, paths map[*newick.Node][]int, count *int) bool {
	q, ok := paths[n]
	if !ok || len(q) != len(p) {
		return false
	}
	for i := range p {
		if p[i] != q[i] {
			return false
		}
	}
	*count++
	for i, k := range n.Children {
		if !samePaths(k, append(p, i), paths, count) {
			return false
		}
	}
	return true
}

func traverseImpl(in Val, pre bool) Val {
	g := valTree(in)
	paths := map[*newick.Node][]int{}
	leafStyle = g.size() // a function of the case, so that a replay builds the same tree
	if pre {
		leafStyle++
	}
	root := buildWithPaths(g, nil, paths)
	it := root.PostOrder()
	if pre {
		it = root.PreOrder()
	}
	out := Val{K: 'l'}
	for n := range it {
		p, ok := paths[n]
		if !ok {
			return L(I(3), S("yielded a node that is not in the tree"))
		}
		out.L = append(out.L, IL(p))
		if len(out.L) > 2*len(paths)+5 {
			break
		}
	}
	count := 0
	if !samePaths(root, nil, paths, &count) || count != len(paths) || nodeVal(root).String() != treeVal(g).String() {
		return L(I(3), S("tree modified by the traversal"))
	}
	return vOk(out)
}

func refOrder(g *gTree, pre bool, p []int, out *[][]int) {
	if pre {
		*out = append(*out, append([]int(nil), p...))
	}
	for i, k := range g.kids {
		refOrder(k, pre, append(p, i), out)
	}
	if !pre {
		*out = append(*out, append([]int(nil), p...))
	}
}

func traverseOracle(pre bool) func(in, out Val) string {
	return func(in, out Val) string {
		if !isOk(out) {
			if out.K == 'l' && len(out.L) == 2 && out.L[0].I == 3 {
				return out.At(1).Str()
			}
			return "traversal failed: " + out.String()
		}
		g := valTree(in)
		var want [][]int
		refOrder(g, pre, nil, &want)
		got := out.At(1).List()
		seen := map[string]bool{}
		for _, pv := range got {
			k := pv.String()
			if seen[k] {
				return "node " + k + " yielded more than once"
			}
			seen[k] = true
		}
		if len(got) != len(want) {
			return fmt.Sprintf("%d nodes yielded, the tree has %d", len(got), len(want))
		}
		for i := range want {
			if IL(want[i]).String() != got[i].String() {
				return fmt.Sprintf("position %d: node %s, the recursive traversal has %s", i, got[i].String(), IL(want[i]).String())
			}
		}
		return ""
	}
}

var kNwPre = register(&Kind{Name: "newick_pre",
	Impl:   func(in Val) Val { return traverseImpl(in, true) },
	Oracle: traverseOracle(true)})

var kNwPost = register(&Kind{Name: "newick_post",
	Impl:   func(in Val) Val { return traverseImpl(in, false) },
	Oracle: traverseOracle(false)})

// chain of the given depth, built without recursion; node i is the only child
// of node i-1.
var chainNames = []string{"n", "a b", "it's", "", "x_y", "(", "p\nq"}

func buildChain(depth int) []*newick.Node {
	nodes := make([]*newick.Node, depth)
	for i := range nodes {
		nodes[i] = &newick.Node{Name: chainNames[i%len(chainNames)]}
		if i%3 != 0 {
			nodes[i].Distance = float64(i%1000) / 4
		}
	}
	for i := 0; i+1 < depth; i++ {
		nodes[i].Children = []*newick.Node{nodes[i+1]}
	}
	return nodes
}

func chainIntact(nodes []*newick.Node) bool {
	for i, n := range nodes {
		want := 1
		if i == len(nodes)-1 {
			want = 0
		}
		if len(n.Children) != want || (want == 1 && n.Children[0] != nodes[i+1]) || n.Name != chainNames[i%len(chainNames)] {
			return false
		}
	}
	return true
}

// [depth mode]: mode 0 pre-order, 1 post-order, 2 write -> read. Implementation
// and oracle only (the path lists of a deep chain are quadratic in size).
var kNwChain = register(&Kind{Name: "newick_chain", NoModel: true,
	Impl: func(in Val) Val {
		depth, mode := in.At(0).Int(), in.At(1).Int()
		nodes := buildChain(depth)
		switch mode {
		case 0, 1:
			it := nodes[0].PreOrder()
			if mode == 1 {
				it = nodes[0].PostOrder()
			}
			count, ok := 0, true
			for n := range it {
				idx := count
				if mode == 1 {
					idx = depth - 1 - count
				}
				if idx < 0 || idx >= depth || nodes[idx] != n {
					ok = false
					break
				}
				count++
			}
			return vOk(L(I(count), Bool(ok), Bool(chainIntact(nodes))))
		default:
			txt, msg := marshalBoth(nodes[0])
			if msg != "" {
				return L(I(3), S(msg))
			}
			items, _ := readItems(txt, false)
			ok := len(items) == 1 && items[0].err == nil
			count := 0
			if ok {
				n := items[0].n
				for i := 0; i < depth; i++ {
					if n.Name != nodes[i].Name || n.Distance != nodes[i].Distance {
						ok = false
						break
					}
					count++
					if i == depth-1 {
						ok = ok && len(n.Children) == 0
					} else if len(n.Children) != 1 {
						ok = false
						break
					} else {
						n = n.Children[0]
					}
				}
			}
			return vOk(L(I(count), Bool(ok), Bool(condensedMsg(txt) == "")))
		}
	},
	Oracle: func(in, out Val) string {
		want := vOk(L(I(in.At(0).Int()), I(1), I(1)))
		if out.String() != want.String() {
			return fmt.Sprintf("chain of depth %d, mode %d: got %s, want %s (count, order/round trip ok, intact/condensed)",
				in.At(0).Int(), in.At(1).Int(), out.String(), want.String())
		}
		return ""
	}})

// newick_wide: [fanout mode] a node with `fanout` leaf children under a root that
// has two more leaves; mode 0 = PreOrder, 1 = PostOrder. Implementation + oracle
// only: child counters of any width must work (65,536 children and more).
var kNwWide = register(&Kind{Name: "newick_wide", NoModel: true,
	Impl: func(in Val) Val {
		fan, mode := in.At(0).Int(), in.At(1).Int()
		hub := &newick.Node{Name: "hub"}
		for i := 0; i < fan; i++ {
			hub.Children = append(hub.Children, &newick.Node{})
		}
		first, last := &newick.Node{Name: "first"}, &newick.Node{Name: "last"}
		root := &newick.Node{Name: "root", Children: []*newick.Node{first, hub, last}}
		var want []*newick.Node
		if mode == 0 {
			want = append(append([]*newick.Node{root, first, hub}, hub.Children...), last)
		} else {
			want = append(append([]*newick.Node{first}, hub.Children...), hub, last, root)
		}
		it := root.PreOrder()
		if mode == 1 {
			it = root.PostOrder()
		}
		count, ok := 0, true
		for n := range it {
			if count >= len(want) || want[count] != n {
				ok = false
				break
			}
			count++
		}
		return vOk(L(I(count), Bool(ok && count == len(want)), Bool(len(hub.Children) == fan && len(root.Children) == 3)))
	},
	Oracle: func(in, out Val) string {
		want := vOk(L(I(in.At(0).Int()+4), Bool(true), Bool(true)))
		if out.String() != want.String() {
			return fmt.Sprintf("node with %d children, mode %d: got %s, want %s (count, order ok, intact)", in.At(0).Int(), in.At(1).Int(), out.String(), want.String())
		}
		return ""
	}})

// newick_reentrant: [tree mode] the same iter.Seq value is iterated again while an
// iteration of it is in progress (nested loops; two iter.Pull cursors in lockstep).
// Every run must yield the full classic order. Implementation + oracle only.
var kNwReentrant = register(&Kind{Name: "newick_reentrant", NoModel: true,
	Impl: func(in Val) Val {
		g := valTree(in.At(0))
		pre := in.At(1).Int() == 0
		paths := map[*newick.Node][]int{}
		root := buildWithPaths(g, nil, paths)
		seq := root.PostOrder()
		if pre {
			seq = root.PreOrder()
		}
		var ref [][]int
		refOrder(g, pre, nil, &ref)
		same := func(got []*newick.Node) bool {
			if len(got) != len(ref) {
				return false
			}
			for i, n := range got {
				if !slices.Equal(paths[n], ref[i]) {
					return false
				}
			}
			return true
		}
		// nested: for every item of the outer run, a complete inner run
		var outer []*newick.Node
		for n := range seq {
			outer = append(outer, n)
			var inner []*newick.Node
			for m := range seq {
				inner = append(inner, m)
				if len(inner) > len(ref)+3 {
					break
				}
			}
			if !same(inner) {
				return L(I(3), S("an iteration started while another iteration of the same Seq is running yields a wrong order"))
			}
			if len(outer) > len(ref)+3 {
				break
			}
		}
		if !same(outer) {
			return L(I(3), S("an iteration is disturbed by iterations of the same Seq started inside its loop body"))
		}
		// two pull cursors in lockstep
		next1, stop1 := iter.Pull(seq)
		next2, stop2 := iter.Pull(seq)
		defer stop1()
		defer stop2()
		var a, b []*newick.Node
		for i := 0; i < len(ref)+3; i++ {
			x, ok1 := next1()
			y, ok2 := next2()
			if ok1 {
				a = append(a, x)
			}
			if ok2 {
				b = append(b, y)
			}
			if !ok1 && !ok2 {
				break
			}
		}
		if !same(a) || !same(b) {
			return L(I(3), S("two cursors over the same Seq disturb each other"))
		}
		return vOk(I(len(ref)))
	},
	Oracle: func(in, out Val) string {
		if !isOk(out) {
			return "re-entrant traversal: " + clip(out.String())
		}
		return ""
	}})

// ---- generators -------------------------------------------------------------

var shapeMemo = map[int][]*gTree{}
var forestMemo = map[int][][]*gTree{}

// allShapes: every ordered tree with n nodes (subtrees are shared: clone before
// labelling).
func allShapes(n int) []*gTree {
	if r, ok := shapeMemo[n]; ok {
		return r
	}
	var r []*gTree
	for _, f := range allForests(n - 1) {
		r = append(r, &gTree{kids: f})
	}
	shapeMemo[n] = r
	return r
}

func allForests(m int) [][]*gTree {
	if m == 0 {
		return [][]*gTree{nil}
	}
	if r, ok := forestMemo[m]; ok {
		return r
	}
	var r [][]*gTree
	for k := 1; k <= m; k++ {
		for _, t := range allShapes(k) {
			for _, f := range allForests(m - k) {
				r = append(r, append([]*gTree{t}, f...))
			}
		}
	}
	forestMemo[m] = r
	return r
}

var newickNamePool = []string{"", " ", "a b", "a_b", "it's", "(", "a,b", "x:y", ";", "\t", "a\nb", "\r", "'", "''", "_",
	"\x00", "\xff", "\xc3\xa9", "\xe6\x97\xa5\xe6\x9c\xac", "plain", "A1", "'a'", "a'", "'a", "()", " lead", "trail ",
	"1.5", "NaN", "a  b", "__", "' '", ":", ",", ")", "\n", " \t ", "a;b", "x'y'z", "''''", "\r\n", "a'_ b", "'_'",
	"(a,b)c:1;", "e", "-", "+Inf",
	// bytes that other tools treat specially but Newick does not: a UTF-8 byte-order
	// mark, Unicode spaces (NBSP, NEL as UTF-8 and as Latin-1 bytes), VT, FF
	"\xef\xbb\xbfbom", "\xef\xbb\xbf", "a\xc2\xa0b", "\xc2\x85", "voil\xc3\xa0", "\xa0", "\x85", "a\vb", "a\fb", "\xe2\x80\xa8"}

var newickSmallPool = []string{"", "a", " ", "_", "'", "a b", "x,y", "(", "p\nq", "it's", "''", ";"}

var newickNameBytes = []byte("(),:;'_ \t\n\ra\x00\xff")

func needsQuote(s string) bool { return bytes.ContainsAny([]byte(s), "(),:;'_\t\n\r") }

func (c *Ctx) newickName() string {
	switch c.Intn(10) {
	case 0, 1, 2, 3:
		return newickNamePool[c.Intn(len(newickNamePool))]
	case 4, 5:
		return string(c.RandBytes(c.Intn(6), newickNameBytes))
	case 6:
		return string(c.RandBytes(c.Intn(8), nil))
	case 7:
		return ""
	}
	return string(c.RandBytes(1+c.Intn(5), []byte("abcXYZ019")))
}

func (c *Ctx) newickDist() float64 {
	if c.Intn(3) == 0 {
		return 0
	}
	return c.RandFloat()
}

func (c *Ctx) label(g *gTree) *gTree {
	g = g.clone()
	g.each(func(x *gTree) { x.name, x.dist = c.newickName(), c.newickDist() })
	return g
}

// randomShape: a random ordered tree with n nodes; style picks the attachment rule.
func (c *Ctx) randomShape(n, style int) *gTree {
	nodes := make([]*gTree, n)
	nodes[0] = &gTree{}
	for i := 1; i < n; i++ {
		nodes[i] = &gTree{}
		var p int
		switch style {
		case 0: // uniform recursive tree
			p = c.Intn(i)
		case 1: // deep: attach near the newest nodes
			p = i - 1 - c.Intn(min(i, 3))
		case 2: // wide: attach near the root
			p = c.Intn(min(i, 3))
		case 3: // binary heap shape
			p = (i - 1) / 2
		default: // caterpillar
			p = (i - 1) / 2 * 2
			if p >= i {
				p = i - 1
			}
		}
		nodes[p].kids = append(nodes[p].kids, nodes[i])
	}
	return nodes[0]
}

func sumDepths(g *gTree, d int) int {
	s := d
	for _, k := range g.kids {
		s += sumDepths(k, d+1)
	}
	return s
}

var newickSeps = []string{"", " ", "\n", "\r\n\t"}

func treeNontrivial(g *gTree) bool {
	nt := false
	g.each(func(x *gTree) {
		if needsQuote(x.name) || x.dist != 0 {
			nt = true
		}
	})
	return nt && g.size() >= 2
}

func (c *Ctx) runTree(g *gTree, strat string) {
	c.Run(kNwWrite, L(treeVal(g), treeOracleVal(g)), treeNontrivial(g), "write/"+strat)
	sep := newickSeps[c.Intn(len(newickSeps))]
	c.Run(kNwSeq, L(L(treeVal(g)), L(S(sep)), treeOracleVal(g)), treeNontrivial(g), "seq1/"+strat, fmt.Sprintf("sep=%q", sep))
}

func (c *Ctx) runDecode(data []byte, isErr bool, strat string) {
	c.Run(kNwDecode, L(B(data), termVal(isErr), inputOracleVal(data)), len(data) >= 3, "decode/"+strat)
}

func mustMarshal(g *gTree) []byte {
	txt, _ := toNode(g).MarshalText()
	return txt
}

func init() {
	registerProp("C05", "exhaustive: every ordered tree shape up to N nodes (quick 6, thorough 8) with random names/distances, every name of a 47-name pool (all quoting triggers and combinations) at every node of the 1- and 2-node trees, a 12-name pool on the 3-node trees, all 256 single-byte names, all pairs over 14 special bytes and triples over 6; random trees up to 200 nodes; sequences of 1-5 trees with separators \"\", \" \", \"\\n\", \"\\r\\n\\t\"; chains of depth 10^5 (implementation only); reader validated on all strings over a 9-letter alphabet up to length 4 (thorough 5), on every prefix of written texts, on mutated texts and on failing streams; non-trivial = at least 2 nodes and a name that needs quoting or a non-zero distance (names: non-empty; decode: at least 3 bytes)", func(c *Ctx) {
		// names
		for _, s := range newickNamePool {
			c.Run(kNwName, S(s), s != "", "name/pool")
		}
		for b := 0; b < 256; b++ {
			c.Run(kNwName, B([]byte{byte(b)}), true, "name/all-single-bytes")
		}
		c.Exhaustive("all 256 single-byte names")
		allStringsExact := func(alpha []byte, n int, f func([]byte)) {
			allStrings(alpha, n, func(s []byte) {
				if len(s) == n {
					f(s)
				}
			})
		}
		allStringsExact(newickNameBytes, 2, func(s []byte) { c.Run(kNwName, B(s), true, "name/all-pairs-special") })
		allStringsExact([]byte("'_ (a\n"), 3, func(s []byte) { c.Run(kNwName, B(s), true, "name/all-triples-special") })
		allStringsExact([]byte("'a"), 4, func(s []byte) { c.Run(kNwName, B(s), true, "name/quads-quote") })
		allStringsExact([]byte("'a"), 5, func(s []byte) { c.Run(kNwName, B(s), true, "name/quints-quote") })
		c.Exhaustive("all names of length 2 over ( ) , : ; ' _ SP TAB LF CR a 0x00 0xff, length 3 over ' _ SP ( a LF, length 4-5 over ' a")
		for i, n := 0, c.Pick(600, 6000); i < n; i++ {
			s := c.newickName()
			c.Run(kNwName, S(s), s != "", "name/random")
		}

		// small trees, exhaustive names
		for _, a := range newickNamePool {
			g := &gTree{name: a}
			c.Run(kNwSeq, L(L(treeVal(g)), L(), treeOracleVal(g)), needsQuote(a), "seq1/1-node-pool")
			for _, b := range newickNamePool {
				g := &gTree{name: a, kids: []*gTree{{name: b, dist: 1.5}}}
				c.Run(kNwSeq, L(L(treeVal(g)), L(), treeOracleVal(g)), true, "seq1/2-node-pool-x-pool")
			}
		}
		for _, sh := range allShapes(3) {
			for _, a := range newickSmallPool {
				for _, b := range newickSmallPool {
					for _, d := range newickSmallPool {
						g := sh.clone()
						names := []string{a, b, d}
						i := 0
						g.each(func(x *gTree) { x.name = names[i]; i++ })
						c.Run(kNwSeq, L(L(treeVal(g)), L(), treeOracleVal(g)), true, "seq1/3-node-smallpool^3")
					}
				}
			}
		}
		c.Exhaustive("name pool at every node of the 1- and 2-node trees; 12-name pool at every node of both 3-node trees")

		// distances
		for _, x := range floatPool {
			for _, sh := range []*gTree{{dist: x}, {kids: []*gTree{{dist: x, name: "k"}, {dist: -x}}}} {
				c.Run(kNwWrite, L(treeVal(sh), treeOracleVal(sh)), true, "write/float-pool")
				c.Run(kNwSeq, L(L(treeVal(sh)), L(S("\n")), treeOracleVal(sh)), true, "seq1/float-pool")
			}
		}

		// all shapes
		maxN := c.Pick(6, 8)
		reps := c.Pick(30, 20)
		for n := 1; n <= maxN; n++ {
			for _, sh := range allShapes(n) {
				c.runTree(sh.clone(), fmt.Sprintf("shape-%d-nodes-unlabelled", n))
				for r := 0; r < reps; r++ {
					c.runTree(c.label(sh), fmt.Sprintf("shape-%d-nodes", n))
				}
			}
		}
		c.Exhaustive(fmt.Sprintf("every ordered tree shape with at most %d nodes (unlabelled and %d random labellings each)", maxN, reps))

		// random trees
		for i, n := 0, c.Pick(150, 1500); i < n; i++ {
			g := c.label(c.randomShape(1+c.Intn(c.Choose(10, 40, 200)), c.Intn(5)))
			c.runTree(g, "random-tree")
		}

		// sequences
		for i, n := 0, c.Pick(400, 4000); i < n; i++ {
			k := 1 + c.Intn(5)
			var ts []*gTree
			tv, sv := Val{K: 'l'}, Val{K: 'l'}
			for j := 0; j < k; j++ {
				var g *gTree
				if c.Intn(4) == 0 {
					g = c.label(c.randomShape(1+c.Intn(30), c.Intn(5)))
				} else {
					shapes := allShapes(1 + c.Intn(5))
					g = c.label(shapes[c.Intn(len(shapes))])
				}
				ts = append(ts, g)
				tv.L = append(tv.L, treeVal(g))
				sv.L = append(sv.L, S(newickSeps[c.Intn(len(newickSeps))]))
			}
			c.Run(kNwSeq, L(tv, sv, treeOracleVal(ts...)), true, fmt.Sprintf("seq/%d-trees", k))
		}

		// deep chains (implementation + oracle)
		c.Run(kNwChain, L(I(100000), I(2)), true, "chain/write-read-depth-1e5")
		c.Run(kNwChain, L(I(1), I(2)), true, "chain/write-read-depth-1")
		// moderately deep chain through the model too
		{
			depth := c.Pick(300, 1500)
			g := &gTree{name: "leaf"}
			for i := 0; i < depth; i++ {
				g = &gTree{name: chainNames[i%len(chainNames)], dist: float64(i%5) / 2, kids: []*gTree{g}}
			}
			c.runTree(g, "chain-model")
		}

		// reader: exhaustive small inputs
		alpha := []byte("(),:;'a1 ")
		maxLen := c.Pick(4, 5)
		allStrings(alpha, maxLen, func(s []byte) {
			c.runDecode(s, false, "all-strings")
			if len(s) <= 3 {
				c.runDecode(s, true, "all-strings-failing-stream")
			}
		})
		c.Exhaustive(fmt.Sprintf("reader: all inputs over \"(),:;'a1 \" of length <= %d", maxLen))

		// reader: prefixes, mutations, random
		for i, n := 0, c.Pick(60, 400); i < n; i++ {
			var buf []byte
			for j := 0; j <= c.Intn(3); j++ {
				shapes := allShapes(1 + c.Intn(6))
				buf = append(buf, mustMarshal(c.label(shapes[c.Intn(len(shapes))]))...)
				buf = append(buf, newickSeps[c.Intn(len(newickSeps))]...)
			}
			if len(buf) > 60 {
				continue
			}
			for k := 0; k <= len(buf); k++ {
				c.runDecode(buf[:k], false, "every-prefix")
				c.runDecode(buf[:k], true, "every-prefix-failing-stream")
			}
		}
		specials := []byte("(),:;' \t\n\r'_a1.e-")
		for i, n := 0, c.Pick(3000, 30000); i < n; i++ {
			var buf []byte
			for j := 0; j <= c.Intn(3); j++ {
				var g *gTree
				if c.Intn(5) == 0 {
					g = c.label(c.randomShape(1+c.Intn(25), c.Intn(5)))
				} else {
					shapes := allShapes(1 + c.Intn(6))
					g = c.label(shapes[c.Intn(len(shapes))])
				}
				buf = append(buf, mustMarshal(g)...)
				buf = append(buf, newickSeps[c.Intn(len(newickSeps))]...)
			}
			strat := "valid-text"
			if c.Intn(4) != 0 {
				strat = "mutated"
				for e := 0; e <= c.Intn(3) && len(buf) > 0; e++ {
					p := c.Intn(len(buf))
					b := specials[c.Intn(len(specials))]
					switch c.Intn(3) {
					case 0:
						buf[p] = b
					case 1:
						buf = append(buf[:p], buf[p+1:]...)
					default:
						buf = append(buf[:p], append([]byte{b}, buf[p:]...)...)
					}
				}
			}
			isErr := c.Intn(6) == 0
			if isErr {
				strat += "-failing-stream"
			}
			c.runDecode(buf, isErr, strat)
		}
		for i, n := 0, c.Pick(1500, 15000); i < n; i++ {
			s := c.RandBytes(c.Intn(24), []byte("(),:;' \t\n\r'_ab12.e-+NnaIif"))
			c.runDecode(s, c.Intn(6) == 0, "random-string")
		}
		for i, n := 0, c.Pick(200, 2000); i < n; i++ {
			c.runDecode(c.RandBytes(c.Intn(40), nil), c.Intn(6) == 0, "random-bytes")
		}
	})

	registerProp("C19", "exhaustive: every ordered tree with at most N nodes (quick 8, thorough 10) through PreOrder and PostOrder; random trees (uniform, deep, wide, heap, caterpillar) up to 10^4 nodes; chains up to depth 1500 through the model and of depth 10^5 (thorough 10^6) on the implementation only; yielded nodes identified by pointer; the tree is checked to be unchanged after every traversal; non-trivial = at least 3 nodes", func(c *Ctx) {
		run := func(g *gTree, strat string) {
			i := 0
			g.each(func(x *gTree) { x.name = "n" + strconv.Itoa(i); i++ })
			v := treeVal(g)
			nt := g.size() >= 3
			c.Run(kNwPre, v, nt, "pre/"+strat)
			c.Run(kNwPost, v, nt, "post/"+strat)
		}
		maxN := c.Pick(8, 10)
		for n := 1; n <= maxN; n++ {
			for _, sh := range allShapes(n) {
				run(sh.clone(), fmt.Sprintf("all-shapes-%d-nodes", n))
			}
		}
		c.Exhaustive(fmt.Sprintf("every ordered tree with at most %d nodes", maxN))
		for i, n := 0, c.Pick(600, 4000); i < n; i++ {
			style := c.Intn(5)
			size := c.Choose(4, 10, 10, 30, 30, 100, 100, 300, 1000)
			if i%50 == 0 {
				size = 10000
			}
			size = 1 + c.Intn(size)
			g := c.randomShape(size, style)
			if sumDepths(g, 0) > c.Pick(150000, 1500000) {
				continue
			}
			run(g, fmt.Sprintf("random-style%d-size<=%d", style, pow10ceil(size)))
		}
		for _, depth := range []int{1, 2, 3, 10, 100, c.Pick(400, 1500)} {
			g := &gTree{}
			for i := 1; i < depth; i++ {
				g = &gTree{kids: []*gTree{g}}
			}
			run(g, "chain-model")
			// chain with a bushy end and leaves hanging off the spine
			h := &gTree{kids: []*gTree{{}, {}, {}}}
			for i := 1; i < depth && i < 200; i++ {
				h = &gTree{kids: []*gTree{{}, h, {}}}
			}
			run(h, "spine-with-leaves")
		}
		// wide nodes: 255..70,000 children
		for _, fan := range []int{0, 1, 255, 256, 257, 65535, 65536, 65537, 70000} {
			c.Run(kNwWide, L(I(fan), I(0)), true, "wide/pre")
			c.Run(kNwWide, L(I(fan), I(1)), true, "wide/post")
		}
		// the same Seq iterated re-entrantly
		for n := 1; n <= 5; n++ {
			for _, sh := range allShapes(n) {
				c.Run(kNwReentrant, L(treeVal(sh), I(0)), n >= 2, "reentrant/pre")
				c.Run(kNwReentrant, L(treeVal(sh), I(1)), n >= 2, "reentrant/post")
			}
		}
		for i := 0; i < 20; i++ {
			g := c.randomShape(5+c.Intn(40), c.Intn(5))
			c.Run(kNwReentrant, L(treeVal(g), I(i%2)), true, "reentrant/random")
		}
		// deeper than 2^20 (an arbitrary depth guard would sit at a power of two)
		deep := c.Pick(1100000, 3000000)
		c.Run(kNwChain, L(I(deep), I(0)), true, fmt.Sprintf("chain/pre-depth-%d", deep))
		c.Run(kNwChain, L(I(deep), I(1)), true, fmt.Sprintf("chain/post-depth-%d", deep))
		c.Run(kNwChain, L(I(1), I(0)), true, "chain/depth-1")
		c.Run(kNwChain, L(I(1), I(1)), true, "chain/depth-1")
	})
}

func pow10ceil(n int) int {
	p := 1
	for p < n {
		p *= 10
	}
	return p
}
