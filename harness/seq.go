package main

// Package sequtil: C12 (reverse complement, canonical k-mers), C13 (2-bit
// packing), C14 (translation). Kinds mirror coq/Corr/SeqCorr.v.

import (
	"bytes"
	"fmt"
	"slices"

	"github.com/fluhus/biostuff/sequtil"
)

// appendCall runs f(dst, src) with dst given spare capacity (so that an
// implementation that writes before len(dst) or re-slices would be seen) and
// checks that src and dst's existing content are untouched.
func appendCall(in Val, f func(dst, src []byte) []byte) Val {
	dst0, src0 := in.At(0).Bytes(), in.At(1).Bytes()
	dst := make([]byte, len(dst0), len(dst0)+len(src0)*4+8)
	copy(dst, dst0)
	src := slices.Clone(src0)
	var out []byte
	if panicked := func() (p bool) {
		defer func() {
			if recover() != nil {
				p = true
			}
		}()
		out = f(dst, src)
		return false
	}(); panicked {
		// an input that is refused must be refused every time (a cache that remembers
		// the failed lookup answers the second call)
		for i := 0; i < 2; i++ {
			if _, ok := try1(func() []byte { return f(slices.Clone(dst0), slices.Clone(src0)) }); ok {
				return L(I(3), S("the call panics the first time and returns normally when repeated"))
			}
		}
		return vPanic
	}
	if !bytes.Equal(src, src0) {
		return L(I(3), S("src modified"))
	}
	if !bytes.Equal(dst[:len(dst0)], dst0) {
		return L(I(3), S("dst content modified"))
	}
	// The result must be the caller's own: scribbling over the result of one call
	// must not change the answer of the next (a result that points into a shared
	// table or a reused buffer), and later calls must not change an earlier result.
	keep := slices.Clone(out)
	fresh := func() []byte {
		if len(dst0) == 0 {
			return nil // also exercises the dst == nil path
		}
		return slices.Clone(dst0)
	}
	r1 := f(fresh(), slices.Clone(src0))
	for i := len(dst0); i < len(r1); i++ {
		r1[i] ^= 0xff
	}
	r2 := f(fresh(), slices.Clone(src0))
	if !bytes.Equal(r2, keep) {
		return L(I(3), S("a result aliases shared state: after scribbling over one result the same call answers differently"))
	}
	if !bytes.Equal(out, keep) {
		return L(I(3), S("an earlier result was changed by later calls"))
	}
	return vOk(B(out))
}

var dna10 = []byte("aAcCgGtTnN")
var dna8 = []byte("aAcCgGtT")

func isIn(b byte, set []byte) bool { return bytes.IndexByte(set, b) >= 0 }
func allIn(s, set []byte) bool {
	for _, b := range s {
		if !isIn(b, set) {
			return false
		}
	}
	return true
}

func complRef(b byte) byte {
	switch b {
	case 'a':
		return 't'
	case 'A':
		return 'T'
	case 'c':
		return 'g'
	case 'C':
		return 'G'
	case 'g':
		return 'c'
	case 'G':
		return 'C'
	case 't':
		return 'a'
	case 'T':
		return 'A'
	case 'n':
		return 'n'
	case 'N':
		return 'N'
	}
	return 0
}

func rcRef(s []byte) []byte {
	r := make([]byte, 0, len(s))
	for i := len(s) - 1; i >= 0; i-- {
		r = append(r, complRef(s[i]))
	}
	return r
}

func isOk(out Val) bool {
	return out.K == 'l' && len(out.L) == 2 && out.L[0].K == 'i' && out.L[0].I == 0
}
func isPanic(out Val) bool { return out.K == 'l' && len(out.L) == 1 && out.L[0].I == 2 }

var kRc = register(&Kind{Name: "rc",
	Impl: func(in Val) Val { return appendCall(in, sequtil.ReverseComplement) },
	Oracle: func(in, out Val) string {
		dst, src := in.At(0).Bytes(), in.At(1).Bytes()
		if !allIn(src, dna10) {
			if !isPanic(out) {
				return "byte outside aAcCgGtTnN did not panic"
			}
			return ""
		}
		if !isOk(out) {
			return "valid sequence: " + out.String()
		}
		got := out.At(1).Bytes()
		if !bytes.Equal(got, append(slices.Clone(dst), rcRef(src)...)) {
			return "not dst ++ reversed complement"
		}
		// involution
		twice := sequtil.ReverseComplement(nil, got[len(dst):])
		if !bytes.Equal(twice, src) {
			return "applying twice does not give back the original"
		}
		if sequtil.ReverseComplementString(string(src)) != string(got[len(dst):]) {
			return "ReverseComplementString disagrees"
		}
		return ""
	}})

var kRcStr = register(&Kind{Name: "rcstr",
	Impl: func(in Val) Val { return vOk(S(sequtil.ReverseComplementString(in.Str()))) },
	Oracle: func(in, out Val) string {
		src := in.Bytes()
		if !allIn(src, dna10) {
			if !isPanic(out) {
				return "byte outside aAcCgGtTnN did not panic"
			}
			return ""
		}
		if !isOk(out) || !bytes.Equal(out.At(1).Bytes(), rcRef(src)) {
			return "wrong reverse complement"
		}
		return ""
	}})

func canonItems(seq []byte, k int) [][]byte {
	var items [][]byte
	for kmer := range sequtil.CanonicalSubsequences(seq, k) {
		items = append(items, slices.Clone(kmer))
		if len(items) > len(seq)+5 {
			break
		}
	}
	return items
}

var kCanon = register(&Kind{Name: "canon",
	Impl: func(in Val) Val {
		seq0 := in.At(0).Bytes()
		seq := slices.Clone(seq0)
		k := in.At(1).Int()
		items := canonItems(seq, k)
		if !bytes.Equal(seq, seq0) {
			return L(I(3), S("seq modified"))
		}
		// items that were yielded must stay what they were while other iterations run
		// (an item that points into a pooled buffer is overwritten by the next iteration)
		var raw [][]byte
		for kmer := range sequtil.CanonicalSubsequences(seq, k) {
			raw = append(raw, kmer)
			if len(raw) > len(seq)+5 {
				break
			}
		}
		other := rcRef(seq)
		for i := range other {
			if other[i] == 0 {
				other = nil
				break
			}
		}
		if other != nil {
			canonItems(other, k)
			canonItems(append(slices.Clone(other), other...), k)
		}
		if len(raw) != len(items) {
			return L(I(3), S("two iterations over the same sequence yield different numbers of items"))
		}
		for i := range raw {
			if !bytes.Equal(raw[i], items[i]) {
				return L(I(3), S("an item changed after it was yielded (it aliases a buffer reused by later iterations)"))
			}
		}
		return vOk(BL(items))
	},
	Oracle: func(in, out Val) string {
		seq, k := in.At(0).Bytes(), in.At(1).Int()
		if k < 1 {
			return ""
		}
		if !allIn(seq, dna10) {
			if !isPanic(out) {
				return "bad base did not panic"
			}
			return ""
		}
		if !isOk(out) {
			return "valid input: " + out.String()
		}
		items := out.At(1).BytesList()
		want := len(seq) - k + 1
		if want < 0 {
			want = 0
		}
		if len(items) != want {
			return fmt.Sprintf("%d items, want %d", len(items), want)
		}
		for i, it := range items {
			a := seq[i : i+k]
			b := rcRef(a)
			if bytes.Compare(a, b) > 0 {
				a = b
			}
			if !bytes.Equal(it, a) {
				return fmt.Sprintf("item %d is not the smaller of the k-mer and its reverse complement", i)
			}
		}
		// strand symmetry
		other := canonItems(rcRef(seq), k)
		if len(other) != len(items) {
			return "reverse complement yields a different number of items"
		}
		for i := range items {
			if !bytes.Equal(items[i], other[len(other)-1-i]) {
				return "reverse complement does not yield the same items in opposite order"
			}
		}
		return ""
	}})

func codeRef(b byte) int {
	switch b {
	case 'a', 'A':
		return 0
	case 'c', 'C':
		return 1
	case 'g', 'G':
		return 2
	case 't', 'T':
		return 3
	}
	return -1
}

var kTo2bit = register(&Kind{Name: "to2bit",
	Impl: func(in Val) Val { return appendCall(in, sequtil.DNATo2Bit) },
	Oracle: func(in, out Val) string {
		dst, src := in.At(0).Bytes(), in.At(1).Bytes()
		if !allIn(src, dna8) {
			if !isPanic(out) {
				return "byte outside aAcCgGtT did not panic"
			}
			return ""
		}
		if !isOk(out) {
			return "valid DNA: " + out.String()
		}
		got := out.At(1).Bytes()
		n := (len(src) + 3) / 4
		if len(got) != len(dst)+n || !bytes.Equal(got[:len(dst)], dst) {
			return "does not append ceil(len/4) bytes to dst"
		}
		for j := 0; j < n; j++ {
			want := 0
			for t := 0; t < 4; t++ {
				want <<= 2
				if 4*j+t < len(src) {
					want |= codeRef(src[4*j+t])
				}
			}
			if int(got[len(dst)+j]) != want {
				return fmt.Sprintf("packed byte %d is %#x, want %#x (first base most significant)", j, got[len(dst)+j], want)
			}
		}
		back := sequtil.DNAFrom2Bit(nil, got[len(dst):])
		want := bytes.ToUpper(src)
		for len(want)%4 != 0 {
			want = append(want, 'A')
		}
		if !bytes.Equal(back, want) {
			return "DNAFrom2Bit(DNATo2Bit(s)) is not upper(s) + 'A' padding"
		}
		return ""
	}})

var kFrom2bit = register(&Kind{Name: "from2bit",
	Impl: func(in Val) Val { return appendCall(in, sequtil.DNAFrom2Bit) },
	Oracle: func(in, out Val) string {
		dst, src := in.At(0).Bytes(), in.At(1).Bytes()
		if !isOk(out) {
			return "DNAFrom2Bit: " + out.String()
		}
		got := out.At(1).Bytes()
		if len(got) != len(dst)+4*len(src) || !bytes.Equal(got[:len(dst)], dst) {
			return "does not append 4 bases per byte to dst"
		}
		if !allIn(got[len(dst):], []byte("ACGT")) {
			return "output outside ACGT"
		}
		if !bytes.Equal(sequtil.DNATo2Bit(nil, got[len(dst):]), src) {
			return "DNATo2Bit(DNAFrom2Bit(p)) != p"
		}
		return ""
	}})

var kNtoi = register(&Kind{Name: "ntoi",
	Impl: func(in Val) Val { return I(sequtil.Ntoi(byte(in.Int()))) },
	Oracle: func(in, out Val) string {
		b := byte(in.Int())
		if out.Int() != codeRef(b) {
			return "Ntoi is not Aa:0 Cc:1 Gg:2 Tt:3 else -1"
		}
		if c := codeRef(b); c >= 0 && sequtil.Iton(c) != bytes.ToUpper([]byte{b})[0] {
			return "Iton(Ntoi(b)) is not the upper-case base"
		}
		return ""
	}})

var kIton = register(&Kind{Name: "iton",
	Impl: func(in Val) Val { return I(int(sequtil.Iton(in.Int()))) },
	Oracle: func(in, out Val) string {
		i := in.Int()
		if i >= 0 && i < 4 {
			if out.Int() != int("ACGT"[i]) || sequtil.Ntoi(byte(out.Int())) != i {
				return "Ntoi(Iton(i)) != i"
			}
		} else if out.Int() != 'N' {
			return "Iton outside 0..3 is not N"
		}
		return ""
	}})

const ncbiTable1 = "FFLLSSSSYY**CC*WLLLLPPPPHHQQRRRRIIIMTTTTNNKKSSRRVVVVAAAADDEEGGGG"

func aminoRef(c []byte) byte {
	idx := 0
	for _, b := range c {
		j := bytes.IndexByte([]byte("TCAG"), bytes.ToUpper([]byte{b})[0])
		if j < 0 {
			return 0
		}
		idx = idx*4 + j
	}
	return ncbiTable1[idx]
}

func translateRef(src []byte) ([]byte, bool) {
	if len(src)%3 != 0 || !allIn(src, dna8) {
		return nil, false
	}
	var r []byte
	for i := 0; i < len(src); i += 3 {
		r = append(r, aminoRef(src[i:i+3]))
	}
	return r, true
}

var kTranslate = register(&Kind{Name: "translate",
	Impl: func(in Val) Val { return appendCall(in, sequtil.Translate) },
	Oracle: func(in, out Val) string {
		dst, src := in.At(0).Bytes(), in.At(1).Bytes()
		want, ok := translateRef(src)
		if !ok {
			if !isPanic(out) {
				return "length not divisible by 3 or non-ACGT base did not panic"
			}
			return ""
		}
		if !isOk(out) || !bytes.Equal(out.At(1).Bytes(), append(slices.Clone(dst), want...)) {
			return "not dst ++ standard genetic code translation"
		}
		return ""
	}})

var kFrames = register(&Kind{Name: "frames",
	Impl: func(in Val) Val {
		seq0 := in.Bytes()
		seq := slices.Clone(seq0)
		r := sequtil.TranslateReadingFrames(seq)
		if !bytes.Equal(seq, seq0) {
			return L(I(3), S("seq modified"))
		}
		// the three frames must be independent slices: appending to one (as a dst for
		// Translate) must not change another
		keep := [3][]byte{slices.Clone(r[0]), slices.Clone(r[1]), slices.Clone(r[2])}
		_ = append(r[0], "XYZ"...)
		_ = append(r[1], "XYZ"...)
		for i := 0; i < 3; i++ {
			if !bytes.Equal(r[i], keep[i]) {
				return L(I(3), S("the frames share a buffer: appending to one frame changes another"))
			}
		}
		return vOk(BL(keep[:]))
	},
	Oracle: func(in, out Val) string {
		seq := in.Bytes()
		if !allIn(seq, dna8) {
			return "" // outside the property's domain
		}
		if !isOk(out) {
			return fmt.Sprintf("TranslateReadingFrames on a valid sequence of length %d: %s", len(seq), out.String())
		}
		fr := out.At(1).BytesList()
		if len(fr) != 3 {
			return "not 3 frames"
		}
		for i := 0; i < 3; i++ {
			sub := seq[min(i, len(seq)):]
			sub = sub[:len(sub)/3*3]
			want, _ := translateRef(sub)
			if !bytes.Equal(fr[i], want) {
				return fmt.Sprintf("frame %d is not Translate of the sequence with %d bases dropped", i, i)
			}
		}
		return ""
	}})

var kAminoName = register(&Kind{Name: "aminoname",
	Impl: func(in Val) Val {
		// twice: the answer (panic included) must not depend on earlier calls
		call := func() (v Val) {
			defer func() {
				if recover() != nil {
					v = vPanic
				}
			}()
			c, n := sequtil.AminoName(byte(in.Int()))
			return vOk(L(S(c), S(n)))
		}
		first := call()
		for i := 0; i < 2; i++ {
			if again := call(); again.String() != first.String() {
				return L(I(3), S("AminoName answers differently when called again"))
			}
		}
		return first
	},
	Oracle: func(in, out Val) string {
		b := byte(in.Int())
		u := b
		if u >= 'a' && u <= 'z' {
			u -= 32
		}
		listed := bytes.IndexByte([]byte(sequtil.AminoAcids), u) >= 0
		if !listed {
			if !isPanic(out) {
				return "byte not in AminoAcids did not panic"
			}
			return ""
		}
		if !isOk(out) || len(out.At(1).At(0).Bytes()) == 0 || len(out.At(1).At(1).Bytes()) == 0 {
			return "letter of AminoAcids rejected or empty code/name"
		}
		return ""
	}})

func (c *Ctx) dstPrefix() []byte {
	switch c.Intn(3) {
	case 0:
		return nil
	case 1:
		return []byte("xy")
	}
	return c.RandBytes(1+c.Intn(6), nil)
}

func init() {
	registerProp("C12", "exhaustive: all strings over aAcCgGtTnN up to length L (rc, with two dst prefixes) and all (string, k) for k=1..L+1 (canon); all 256 single bytes; random sequences up to length 500 with one foreign byte injected in 10% of them; non-trivial = sequence of length >= 2 over the 10-letter alphabet (or, for the boundary stratum, a single foreign byte)", func(c *Ctx) {
		maxLen := c.Pick(4, 5)
		allStrings(dna10, maxLen, func(s []byte) {
			c.Run(kRc, L(B(nil), B(s)), len(s) >= 2, "rc/exhaustive")
			if len(s) <= 3 {
				c.Run(kRc, L(S("Nx"), B(s)), len(s) >= 2, "rc/exhaustive-dst")
			}
			if len(s) <= 3 {
				c.Run(kRcStr, B(s), len(s) >= 2, "rcstr/exhaustive")
			}
			for k := 1; k <= len(s)+1; k++ {
				c.Run(kCanon, L(B(s), I(k)), len(s) >= 2, "canon/exhaustive")
			}
		})
		c.Exhaustive(fmt.Sprintf("all sequences over aAcCgGtTnN of length <= %d", maxLen))
		for b := 0; b < 256; b++ {
			c.Run(kRc, L(B(nil), B([]byte{byte(b)})), true, "rc/all-bytes")
			c.Run(kRcStr, B([]byte{byte(b)}), true, "rcstr/all-bytes")
			c.Run(kCanon, L(B([]byte{'A', byte(b), 'C'}), I(2)), true, "canon/all-bytes")
		}
		c.Exhaustive("all 256 byte values at the accept/panic boundary")
		n := c.Pick(300, 5000)
		for i := 0; i < n; i++ {
			s := c.RandBytes(c.Choose(2, 5, 17, 64, 200, 500), dna10)
			strat := "random"
			if c.Intn(10) == 0 {
				s[c.Intn(len(s))] = byte(c.Intn(256))
				strat = "random-foreign-byte"
			}
			c.Run(kRc, L(B(c.dstPrefix()), B(s)), true, "rc/"+strat)
			c.Run(kRcStr, B(s), true, "rcstr/"+strat)
			k := c.Choose(1, 2, 3, 4, 8, 21, 31, len(s), len(s)+1, len(s)+7)
			c.Run(kCanon, L(B(s), I(k)), true, "canon/"+strat)
		}
		// dst prefixes containing zero bytes (a result scan that covers dst would see them)
		for _, d := range [][]byte{{0}, {0, 0, 'A'}, {'A', 0}, {255, 0, 1}} {
			c.Run(kRc, L(B(d), S("ACGTN")), true, "rc/dst-with-zero-byte")
			c.Run(kRc, L(B(d), S("")), true, "rc/dst-with-zero-byte")
		}
		// every two-byte UTF-8 character, and a sample of three-byte ones: multi-byte
		// characters are just invalid bytes here (a loop over runes instead of bytes
		// would truncate the code point to a letter)
		for r := 0x80; r <= 0x7ff; r++ {
			c.Run(kRcStr, S(string(rune(r))), true, "rcstr/utf8-2byte")
		}
		for r := 0x800; r <= 0xffff; r += 0x11 {
			if r < 0xd800 || r > 0xdfff {
				c.Run(kRcStr, S("A"+string(rune(r))+"c"), true, "rcstr/utf8-3byte")
				c.Run(kRc, L(B(nil), S(string(rune(r)))), true, "rc/utf8-3byte")
			}
		}
		// hairpins: k-mers X + M + revcomp(X) agree with their own reverse complement
		// on the first |X| bases, so the strand choice is decided late (or, for an
		// implementation that compares only a prefix, wrongly)
		nh := c.Pick(400, 6000)
		for i := 0; i < nh; i++ {
			x := c.RandBytes(1+c.Intn(16), []byte("ACGT"))
			m := c.RandBytes(c.Intn(4), []byte("ACGT"))
			hp := append(append(append([]byte{}, x...), m...), rcRef(x)...)
			if c.Intn(4) == 0 {
				for j := range hp {
					if c.Intn(3) == 0 {
						hp[j] += 32
					}
				}
			}
			flank := c.RandBytes(c.Intn(3), []byte("ACGTN"))
			sq := append(append(append([]byte{}, flank...), hp...), flank...)
			c.Run(kCanon, L(B(sq), I(len(hp))), true, "canon/hairpin")
			if len(hp) > 2 {
				c.Run(kCanon, L(B(sq), I(len(hp)-1)), true, "canon/hairpin")
			}
		}
	})

	registerProp("C13", "exhaustive: all 256 single bytes and all 65,536 byte pairs through DNAFrom2Bit/DNATo2Bit, all DNA strings over aAcCgGtT up to length L, all 256 bytes for Ntoi and the to2bit accept/panic boundary, Iton on -3..8; random DNA up to length 1000 with dst prefixes; non-trivial = at least one base / one packed byte", func(c *Ctx) {
		for b := 0; b < 256; b++ {
			c.Run(kFrom2bit, L(B(nil), B([]byte{byte(b)})), true, "from2bit/all-bytes")
			c.Run(kNtoi, I(b), true, "ntoi/all-bytes")
			c.Run(kTo2bit, L(B(nil), B([]byte{byte(b)})), true, "to2bit/all-bytes")
			c.Run(kTo2bit, L(S("q"), B([]byte{'A', 'c', byte(b), 'T', 'g'})), true, "to2bit/all-bytes-mid")
		}
		for i := -3; i <= 8; i++ {
			c.Run(kIton, I(i), true, "iton")
		}
		for _, i := range []int{-1 << 62, 1 << 62, 256, 65536} {
			c.Run(kIton, I(i), true, "iton")
		}
		// all byte pairs: the implementation side is checked by the oracle for all
		// 65,536; the model is asked about a 1/16 slice in the quick tier.
		for a := 0; a < 256; a++ {
			for b := 0; b < 256; b++ {
				in := L(B(nil), B([]byte{byte(a), byte(b)}))
				if c.Thorough() || (a*256+b)%16 == int(c.Seed&15) {
					c.Run(kFrom2bit, in, true, "from2bit/all-pairs")
				} else {
					k := *kFrom2bit
					k.NoModel = true
					c.Run(&k, in, true, "from2bit/all-pairs-impl-only")
				}
			}
		}
		c.Exhaustive("all 256 bytes; all 65,536 byte pairs (implementation + oracle; model on a slice in the quick tier)")
		maxLen := c.Pick(5, 7)
		allStrings(dna8, maxLen, func(s []byte) {
			c.Run(kTo2bit, L(B(nil), B(s)), len(s) >= 1, "to2bit/exhaustive")
		})
		c.Exhaustive(fmt.Sprintf("all DNA strings over aAcCgGtT of length <= %d", maxLen))
		// long inputs: past any internal block size (1024-byte blocks = 4096 bases, ...)
		for _, ln := range []int{4095, 4096, 4097, 4100, 5000, 8192, 8193, 20000, 70001} {
			c.Run(kTo2bit, L(B(c.dstPrefix()), B(c.RandBytes(ln, dna8))), true, "to2bit/long")
			c.Run(kFrom2bit, L(B(c.dstPrefix()), B(c.RandBytes(ln/4+1, nil))), true, "from2bit/long")
		}
		n := c.Pick(300, 5000)
		for i := 0; i < n; i++ {
			s := c.RandBytes(c.Choose(1, 2, 3, 4, 5, 7, 8, 9, 63, 64, 65, 1000), dna8)
			strat := fmt.Sprintf("to2bit/random-len%%4=%d", len(s)%4)
			if c.Intn(12) == 0 {
				s[c.Intn(len(s))] = byte(c.Intn(256))
				strat = "to2bit/random-foreign-byte"
			}
			c.Run(kTo2bit, L(B(c.dstPrefix()), B(s)), true, strat)
			p := c.RandBytes(c.Choose(1, 2, 3, 16, 250), nil)
			c.Run(kFrom2bit, L(B(c.dstPrefix()), B(p)), true, "from2bit/random")
		}
	})

	registerProp("C14", "exhaustive: all 64 codons x 8 case patterns, every byte value at each of the 3 codon positions, all sequences over ACGT up to length L through Translate (length not divisible by 3 included) and TranslateReadingFrames, all 256 bytes for AminoName; random mixed-case sequences up to 300 with dst prefixes; non-trivial = at least one codon (Translate), any length (frames: short lengths are the point)", func(c *Ctx) {
		acgt := []byte("ACGT")
		for _, a := range acgt {
			for _, b := range acgt {
				for _, d := range acgt {
					for mask := 0; mask < 8; mask++ {
						cod := []byte{a, b, d}
						for j := 0; j < 3; j++ {
							if mask&(1<<j) != 0 {
								cod[j] += 32
							}
						}
						c.Run(kTranslate, L(B(nil), B(cod)), true, "translate/codon-x-case")
					}
				}
			}
		}
		c.Exhaustive("64 codons x 8 case patterns")
		for b := 0; b < 256; b++ {
			c.Run(kTranslate, L(B(nil), B([]byte{byte(b), 'A', 'A'})), true, "translate/byte-sweep")
			c.Run(kTranslate, L(B(nil), B([]byte{'G', byte(b), 'T'})), true, "translate/byte-sweep")
			c.Run(kTranslate, L(B(nil), B([]byte{'c', 'C', byte(b)})), true, "translate/byte-sweep")
			c.Run(kAminoName, I(b), true, "aminoname/all-bytes")
		}
		c.Exhaustive("every byte value at each codon position; all 256 bytes for AminoName")
		maxLen := c.Pick(6, 8)
		allStrings(acgt, maxLen, func(s []byte) {
			c.Run(kFrames, B(s), true, fmt.Sprintf("frames/exhaustive-len%d", min(len(s), 4)))
			c.Run(kTranslate, L(B(nil), B(s)), len(s) >= 3, "translate/exhaustive")
		})
		c.Exhaustive(fmt.Sprintf("all sequences over ACGT of length <= %d", maxLen))
		if c.Thorough() {
			// all 2^24 byte triples on the implementation against the reference table
			bad := 0
			for a := 0; a < 256 && bad == 0; a++ {
				for b := 0; b < 256 && bad == 0; b++ {
					for d := 0; d < 256; d++ {
						in := []byte{byte(a), byte(b), byte(d)}
						want, ok := translateRef(in)
						got, gok := try1(func() []byte { return sequtil.Translate(nil, in) })
						if ok != gok || (ok && !bytes.Equal(got, want)) {
							c.Fail(kTranslate, L(B(nil), B(in)), "triple sweep: differs from the standard genetic code / accept set")
							bad++
							break
						}
					}
				}
			}
			c.Exhaustive("all 2^24 byte triples (implementation vs reference)")
		}
		n := c.Pick(300, 5000)
		for i := 0; i < n; i++ {
			s := c.RandBytes(c.Choose(0, 1, 2, 3, 4, 5, 6, 30, 299, 300), dna8)
			strat := "random"
			if len(s) > 0 && c.Intn(10) == 0 {
				s[c.Intn(len(s))] = byte(c.Intn(256))
				strat = "random-foreign-byte"
			}
			c.Run(kFrames, B(s), true, "frames/"+strat)
			c.Run(kTranslate, L(B(c.dstPrefix()), B(s)), len(s) >= 3, "translate/"+strat)
			// concatenation law
			t := c.RandBytes(3*c.Intn(5), dna8)
			u := c.RandBytes(3*c.Intn(5), dna8)
			a, _ := try1(func() []byte { return sequtil.Translate(nil, append(slices.Clone(t), u...)) })
			b1, _ := try1(func() []byte { return sequtil.Translate(nil, t) })
			b2, _ := try1(func() []byte { return sequtil.Translate(nil, u) })
			if !bytes.Equal(a, append(b1, b2...)) {
				c.Fail(kTranslate, L(B(t), B(u)), "Translate(t++u) != Translate(t)++Translate(u)")
			}
		}
	})
}
