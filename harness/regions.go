package main

// Package regions: C16 (the interval index reports exactly the intervals covering a
// position). Kind mirrors coq/Corr/RegionsCorr.v.
//
//	regions_at: [starts ends queries] -> [i0 [answer...]] | [i2]
//
// where each answer is the list returned by At (nil = empty list).

import (
	"fmt"
	"math"
	"slices"
	"sync"

	"github.com/fluhus/biostuff/regions"
)

// coverRef is the independent reference: a plain scan of starts/ends.
func coverRef(starts, ends []int, i int) []int {
	var r []int
	for x := range starts {
		if starts[x] <= i && i < ends[x] {
			r = append(r, x)
		}
	}
	return r
}

func sameInts(a, b []int) bool {
	if len(a) != len(b) {
		return false
	}
	for i := range a {
		if a[i] != b[i] {
			return false
		}
	}
	return true
}

var kRegionsAt = register(&Kind{Name: "regions_at",
	Impl: func(in Val) Val {
		starts0, ends0, queries := in.At(0).IntList(), in.At(1).IntList(), in.At(2).IntList()
		starts, ends := slices.Clone(starts0), slices.Clone(ends0)
		idx := regions.NewIndex(starts, ends)
		if !sameInts(starts, starts0) || !sameInts(ends, ends0) {
			return L(I(3), S("NewIndex modified its arguments"))
		}
		var answers []Val
		for _, q := range queries {
			answers = append(answers, IL(idx.At(q)))
		}
		return vOk(L(answers...))
	},
	Oracle: func(in, out Val) string {
		starts, ends, queries := in.At(0).IntList(), in.At(1).IntList(), in.At(2).IntList()
		if len(starts) != len(ends) {
			if !isPanic(out) {
				return fmt.Sprintf("%d starts and %d ends did not make NewIndex panic: %s", len(starts), len(ends), clip(out.String()))
			}
			return ""
		}
		if !isOk(out) {
			return "equal lengths: " + clip(out.String())
		}
		answers := out.At(1).List()
		if len(answers) != len(queries) {
			return "wrong number of answers"
		}
		want := make([][]int, len(queries))
		for k, q := range queries {
			want[k] = coverRef(starts, ends, q)
			if got := answers[k].IntList(); !sameInts(got, want[k]) {
				return fmt.Sprintf("At(%d) = %v, want the ascending list of x with starts[x] <= i < ends[x] = %v", q, got, want[k])
			}
		}
		// The index is read-only after construction: a fresh index, whose returned
		// slices and whose constructor arguments are scribbled over between queries.
		s2, e2 := slices.Clone(starts), slices.Clone(ends)
		idx := regions.NewIndex(s2, e2)
		for k := range s2 {
			s2[k], e2[k] = math.MinInt, math.MaxInt
		}
		for round := 0; round < 2; round++ {
			for k, q := range queries {
				a := idx.At(q)
				if !sameInts(a, want[k]) {
					return fmt.Sprintf("At(%d) = %v after earlier results / the constructor arguments were mutated, want %v", q, a, want[k])
				}
				b := idx.At(q)
				if len(a) > 0 && &a[0] == &b[0] {
					return fmt.Sprintf("two calls of At(%d) return the same backing array", q)
				}
				for j := range a {
					a[j] = -7 - j
				}
				if cap(a) > len(a) {
					a = append(a, 99)
				}
				slices.Reverse(b)
				_ = append(b[:0], 1234)
			}
		}
		// Concurrent readers (no -race here: the answers are compared).
		if len(queries) > 0 && (len(starts) >= 4 || concurrentSample(starts, ends)) {
			const readers = 8
			msgs := make([]string, readers)
			var wg sync.WaitGroup
			// a fresh index: the concurrent lookups are the first ones it ever serves
			// (lazy work done inside At on first use would race here)
			idx = regions.NewIndex(slices.Clone(starts), slices.Clone(ends))
			for g := 0; g < readers; g++ {
				wg.Add(1)
				go func(g int) {
					defer wg.Done()
					defer func() {
						if r := recover(); r != nil {
							msgs[g] = fmt.Sprint("concurrent At panicked: ", r)
						}
					}()
					for t := 0; t < len(queries); t++ {
						k := (t*(2*g+1) + g) % len(queries)
						a := idx.At(queries[k])
						if !sameInts(a, want[k]) {
							msgs[g] = fmt.Sprintf("concurrent At(%d) = %v, want %v", queries[k], a, want[k])
							return
						}
						for j := range a {
							a[j] = g
						}
					}
				}(g)
			}
			wg.Wait()
			for _, m := range msgs {
				if m != "" {
					return m
				}
			}
		}
		return ""
	}})

// concurrentSample selects a deterministic eighth of the small cases for the
// concurrent-readers check (all cases with >= 4 intervals get it).
func concurrentSample(starts, ends []int) bool {
	h := len(starts)
	for k := range starts {
		h = h*31 + starts[k]*7 + ends[k]
	}
	return h&7 == 0
}

// regionsNontrivial: at least one interval with start < end and at least one query
// answered with a non-empty list.
func regionsNontrivial(starts, ends, queries []int) bool {
	if len(starts) != len(ends) {
		return false
	}
	for _, q := range queries {
		if len(coverRef(starts, ends, q)) > 0 {
			return true
		}
	}
	return false
}

func (c *Ctx) runRegions(starts, ends, queries []int, strata ...string) {
	c.Run(kRegionsAt, L(IL(starts), IL(ends), IL(queries)), regionsNontrivial(starts, ends, queries), strata...)
}

// regionsQueries: every endpoint and its two neighbours (capped), one position
// below the minimum, one above the maximum, and the extreme ints.
func (c *Ctx) regionsQueries(starts, ends []int, limit int) []int {
	seen := map[int]bool{}
	var pts []int
	add := func(p int) {
		if !seen[p] {
			seen[p] = true
			pts = append(pts, p)
		}
	}
	lo, hi := math.MaxInt, math.MinInt
	for _, l := range [][]int{starts, ends} {
		for _, p := range l {
			lo, hi = min(lo, p), max(hi, p)
		}
	}
	var qs []int
	if lo <= hi {
		if lo > math.MinInt {
			qs = append(qs, lo-1)
		}
		if hi < math.MaxInt {
			qs = append(qs, hi+1)
		}
		qs = append(qs, lo, hi)
	}
	qs = append(qs, math.MinInt, math.MaxInt, 0)
	for _, l := range [][]int{starts, ends} {
		for _, p := range l {
			if p > math.MinInt {
				add(p - 1)
			}
			add(p)
			if p < math.MaxInt {
				add(p + 1)
			}
		}
	}
	c.Rng.Shuffle(len(pts), func(i, j int) { pts[i], pts[j] = pts[j], pts[i] })
	if len(pts) > limit {
		pts = pts[:limit]
	}
	qs = append(qs, pts...)
	for k := 0; k < 4; k++ {
		if lo < hi && hi-lo > 0 { // hi-lo may overflow for extreme coordinates: then skip
			qs = append(qs, lo+c.Rng.Intn(min(hi-lo, 1<<40)))
		}
	}
	return qs
}

// regionsRandom draws n intervals in one of the coordinate styles.
func (c *Ctx) regionsRandom(n int, style string) (starts, ends []int) {
	coord := func() int {
		switch style {
		case "small":
			return c.Intn(14) - 3
		case "medium":
			return c.Intn(2001) - 1000
		case "huge":
			base := []int{1 << 62, -(1 << 62), math.MaxInt - 6, math.MinInt + 6}[c.Intn(4)]
			return base + c.Intn(13) - 6
		}
		// mixed
		switch c.Intn(4) {
		case 0:
			return c.Intn(14) - 3
		case 1:
			return c.Intn(2001) - 1000
		case 2:
			return []int{1 << 62, -(1 << 62)}[c.Intn(2)] + c.Intn(13) - 6
		}
		return []int{math.MinInt, math.MaxInt, 0, -1, 1}[c.Intn(5)]
	}
	for len(starts) < n {
		k := len(starts)
		var s, e int
		shape := c.Intn(10)
		switch {
		case k > 0 && shape == 0: // duplicate of an earlier interval
			j := c.Intn(k)
			s, e = starts[j], ends[j]
		case k > 0 && shape == 1: // touching: starts where an earlier one ends
			j := c.Intn(k)
			s, e = ends[j], coord()
			if e < s && c.Intn(4) != 0 {
				s, e = ends[j], ends[j]+c.Intn(5)
				if e < s { // overflow
					e = s
				}
			}
		case k > 0 && shape == 2: // touching: ends where an earlier one starts
			j := c.Intn(k)
			s, e = coord(), starts[j]
		case k > 0 && shape == 3: // nested in / nesting an earlier interval
			j := c.Intn(k)
			s, e = starts[j], ends[j]
			if s < e && e-s > 0 && e-s < 1<<40 {
				a, b := s+c.Intn(e-s), s+c.Intn(e-s)+1
				s, e = min(a, b), max(a, b)
			}
		case shape == 4: // empty
			s = coord()
			e = s
		case shape == 5: // as drawn: may be inverted
			s, e = coord(), coord()
		default: // well-formed
			s, e = coord(), coord()
			if s > e {
				s, e = e, s
			}
		}
		starts, ends = append(starts, s), append(ends, e)
	}
	return
}

func init() {
	registerProp("C16", "exhaustive: every list of <= N intervals with both coordinates in a small range (start == end and start > end included), each queried at every position from one below the range minus one to two above it; random sets of up to 200 intervals in four coordinate styles (small, medium, around +-2^62 and the int extremes, mixed) with duplicated, nested, touching, empty and inverted intervals, queried at endpoints and their neighbours, below the minimum, above the maximum and at the extreme ints; starts/ends of different lengths (must panic); the oracle also mutates returned slices and the constructor arguments and re-queries, and runs 8 concurrent readers; non-trivial = equal lengths and at least one query answered with a non-empty list", func(c *Ctx) {
		// exhaustive small scope
		nMax, hiC := c.Pick(3, 4), c.Pick(3, 4)
		var pairs [][2]int
		for s := -1; s <= hiC; s++ {
			for e := -1; e <= hiC; e++ {
				pairs = append(pairs, [2]int{s, e})
			}
		}
		var queries []int
		for q := -2; q <= hiC+2; q++ {
			queries = append(queries, q)
		}
		var rec func(starts, ends []int)
		rec = func(starts, ends []int) {
			c.runRegions(starts, ends, queries, fmt.Sprintf("exhaustive/%d-intervals", len(starts)))
			if len(starts) == nMax {
				return
			}
			for _, p := range pairs {
				rec(append(starts, p[0]), append(ends, p[1]))
			}
		}
		rec(nil, nil)
		c.Exhaustive(fmt.Sprintf("all lists of <= %d intervals with coordinates in -1..%d x all positions -2..%d", nMax, hiC, hiC+2))

		// random sets
		n := c.Pick(1500, 20000)
		for i := 0; i < n; i++ {
			style := []string{"small", "medium", "huge", "mixed"}[c.Intn(4)]
			size := c.Choose(1, 2, 3, 5, 8, 13, 30, 60, 120, 200)
			starts, ends := c.regionsRandom(size, style)
			qs := c.regionsQueries(starts, ends, c.Choose(10, 40, 80))
			sz := "<=8"
			if size > 8 {
				sz = ">8"
			}
			c.runRegions(starts, ends, qs, "random/"+style, "random/size"+sz)
		}

		// deep stacks: many intervals covering one position (65, 100, 300, 1000 of them),
		// nested, in several index orders; queried at the common position and around it
		for _, depth := range []int{64, 65, 66, 100, 300, 1000} {
			for variant := 0; variant < 3; variant++ {
				starts, ends := make([]int, depth), make([]int, depth)
				for i := 0; i < depth; i++ {
					j := i
					switch variant {
					case 1:
						j = depth - 1 - i
					case 2:
						j = (i*37 + 11) % depth
					}
					starts[i], ends[i] = j, 3*depth-j
				}
				qs := []int{depth + depth/2, depth - 1, depth, 0, 1, depth / 2, 3*depth - 1, 3 * depth, 2*depth + 7, -1}
				c.runRegions(starts, ends, qs, "deep-stack", fmt.Sprintf("deep-stack/%d", depth))
			}
		}

		// lengths that do not match
		m := c.Pick(200, 2000)
		for i := 0; i < m; i++ {
			a, b := c.Intn(6), c.Intn(6)
			if i%4 == 0 {
				a, b = c.Choose(0, 1, 50, 200), c.Choose(0, 1, 49, 51, 199)
			}
			if a == b {
				b = a + 1
			}
			starts, _ := c.regionsRandom(a, "small")
			_, ends := c.regionsRandom(b, "small")
			var strat string
			switch {
			case a == 0 || b == 0:
				strat = "mismatch/one-empty"
			case a < b:
				strat = "mismatch/fewer-starts"
			default:
				strat = "mismatch/fewer-ends"
			}
			c.Run(kRegionsAt, L(IL(starts), IL(ends), IL([]int{0, 1})), true, strat)
		}
	})
}
