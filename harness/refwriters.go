package main

// Reference writers that do NOT go through the library: inputs for the
// reader-side properties (C06, C07, C11, C18) must not be produced by the
// writer under test, or a defect of the writer masks itself (a writer that
// drops negative Newick distances never produces the input on which the
// fixed-point property fails).

import (
	"bytes"
	"strconv"
	"strings"
)

// refNewickText renders g in condensed Newick form by the documented rules.
func refNewickText(g *gTree) []byte {
	var buf bytes.Buffer
	var rec func(t *gTree)
	rec = func(t *gTree) {
		if len(t.kids) > 0 {
			buf.WriteByte('(')
			for i, k := range t.kids {
				if i > 0 {
					buf.WriteByte(',')
				}
				rec(k)
			}
			buf.WriteByte(')')
		}
		if strings.ContainsAny(t.name, "(),:;'_\t\n\r") {
			buf.WriteByte('\'')
			buf.WriteString(strings.ReplaceAll(t.name, "'", "''"))
			buf.WriteByte('\'')
		} else {
			buf.WriteString(strings.ReplaceAll(t.name, " ", "_"))
		}
		if t.dist != 0 {
			buf.WriteByte(':')
			// %v of a float64: shortest 'g' with the exponent threshold of fmt (21)
			buf.WriteString(fmtFloatV(t.dist))
		}
	}
	rec(g)
	buf.WriteByte(';')
	return buf.Bytes()
}

// fmtFloatV is fmt's %v for float64: %g with the shortest representation, but
// exponents below 21 are printed positionally.
func fmtFloatV(x float64) string {
	s := strconv.FormatFloat(x, 'g', -1, 64)
	if strings.ContainsAny(s, "e") {
		// fmt uses %e form only when exp < -4 || exp >= 21
		e := strconv.FormatFloat(x, 'e', -1, 64)
		i := strings.IndexByte(e, 'e')
		exp, _ := strconv.Atoi(e[i+1:])
		if exp >= -4 && exp < 21 {
			return strconv.FormatFloat(x, 'f', -1, 64)
		}
	}
	return s
}
