package main

// Reference writers that do NOT go through the library: inputs for the
// reader-side properties (C06, C07, C11, C18) must not be produced by the
// writer under test, or a defect of the writer masks itself (a writer that
// drops negative Newick distances never produces the input on which the
// fixed-point property fails).

import (
	"bytes"
	"strconv"
	"strings"
)

// refNewickText renders g in condensed Newick form by the documented rules.
func refNewickText(g *gTree) []byte {
	var buf bytes.Buffer
	var rec func(t *gTree)
	rec = func(t *gTree) {
		if len(t.kids) > 0 {
			buf.WriteByte('(')
			for i, k := range t.kids {
				if i > 0 {
					buf.WriteByte(',')
				}
				rec(k)
			}
			buf.WriteByte(')')
		}
		if strings.ContainsAny(t.name, "(),:;'_\t\n\r") {
			buf.WriteByte('\'')
			buf.WriteString(strings.ReplaceAll(t.name, "'", "''"))
			buf.WriteByte('\'')
		} else {
			buf.WriteString(strings.ReplaceAll(t.name, " ", "_"))
		}
		if t.dist != 0 {
			buf.WriteByte(':')
			// %v of a float64: shortest 'g' with the exponent threshold of fmt (21)
			buf.WriteString(fmtFloatV(t.dist))
		}
	}
	rec(g)
	buf.WriteByte(';')
	return buf.Bytes()
}

// fmtFloatV is fmt's %v for float64: %g with the shortest representation, but
// exponents below 21 are printed positionally.
func fmtFloatV(x float64) string {
	s := strconv.FormatFloat(x, 'g', -1, 64)
	if strings.ContainsAny(s, "e") {
		// fmt uses %e form only when exp < -4 || exp >= 21
		e := strconv.FormatFloat(x, 'e', -1, 64)
		i := strings.IndexByte(e, 'e')
		exp, _ := strconv.Atoi(e[i+1:])
		if exp >= -4 && exp < 21 {
			return strconv.FormatFloat(x, 'f', -1, 64)
		}
	}
	return s
}

// manyRecordsText returns a well-formed file of about total bytes made of many
// small records, written by reference writers (not the library). Streams longer
// than the readers' buffers (4 KiB bufio, 64 KiB Scanner) with many records are
// where a record that aliases a reused buffer gets corrupted.
func manyRecordsText(c *Ctx, format string, total int) []byte {
	var buf bytes.Buffer
	i := 0
	for buf.Len() < total {
		i++
		n := 5 + c.Intn(40)
		seq := c.RandBytes(n, []byte("ACGT"))
		name := "r" + strconv.Itoa(i)
		switch format {
		case "fasta":
			buf.WriteString(">" + name + "\n")
			buf.Write(seq)
			buf.WriteString("\n")
		case "fastq":
			buf.WriteString("@" + name + "\n")
			buf.Write(seq)
			buf.WriteString("\n+\n")
			buf.Write(c.RandBytes(n, []byte("!#5?IJ~")))
			buf.WriteString("\n")
		case "sam", "samrec":
			buf.WriteString(name + "\t" + strconv.Itoa(c.Intn(4096)) + "\tchr1\t" + strconv.Itoa(i) + "\t60\t" + strconv.Itoa(n) + "M\t=\t0\t0\t")
			buf.Write(seq)
			buf.WriteString("\t*\tNM:i:" + strconv.Itoa(c.Intn(9)) + "\n")
		case "bed":
			buf.WriteString("chr" + strconv.Itoa(1+c.Intn(22)) + "\t" + strconv.Itoa(i) + "\t" + strconv.Itoa(i+n) + "\t" + name + "\n")
		case "newick":
			buf.WriteString("(" + name + ":1.5,b" + strconv.Itoa(i) + ")c;\n")
		default:
			return nil
		}
	}
	return buf.Bytes()
}
