package main

// Package mash: C17 (MinHash sketches depend only on the k-mer content; Mash
// distance laws). Kinds mirror coq/Corr/MashCorr.v.
//
// The hash function is abstract in the model: every case carries the table of
// the real murmur3 values (seed mash.Seed) of its canonical upper-cased k-mers,
// and jaccard cases carry the table of the float64 quotients i/u.
// A uint64 travels as 8 bytes big-endian.

import (
	"bytes"
	"encoding/binary"
	"fmt"
	"math"
	"slices"
	"sort"

	"github.com/fluhus/biostuff/mash"
	"github.com/fluhus/gostuff/minhash"
	"github.com/spaolacci/murmur3"
)

// ---- independent reference ---------------------------------------------------

// mashUpperRef upper-cases ASCII letters; ok=false when the sequence has a byte
// that is not one of aAcCgGtTnN (the implementation must panic on it).
func mashUpperRef(s []byte) (up []byte, ok bool) {
	up = make([]byte, len(s))
	ok = true
	for i, b := range s {
		switch b {
		case 'a', 'c', 'g', 't', 'n':
			up[i] = b - 32
		case 'A', 'C', 'G', 'T', 'N':
			up[i] = b
		default:
			up[i] = b
			ok = false
		}
	}
	return up, ok
}

// mashKmersRef lists the canonical upper-cased k-mers of the sequences (k >= 0),
// or ok=false when some sequence has a foreign byte.
func mashKmersRef(seqs [][]byte, k int) (kmers [][]byte, ok bool) {
	for _, s := range seqs {
		up, good := mashUpperRef(s)
		if !good {
			return kmers, false
		}
		for i := 0; i+k <= len(up); i++ {
			a := up[i : i+k]
			b := rcRef(a)
			if bytes.Compare(a, b) > 0 {
				a = b
			}
			kmers = append(kmers, slices.Clone(a))
		}
	}
	return kmers, true
}

func mashHashRef(kmer []byte) uint64 { return murmur3.Sum64WithSeed(kmer, mash.Seed) }

// mashSketchRef: the n smallest distinct hash values, descending.
func mashSketchRef(kmers [][]byte, n int) []uint64 {
	set := map[uint64]struct{}{}
	for _, km := range kmers {
		set[mashHashRef(km)] = struct{}{}
	}
	all := make([]uint64, 0, len(set))
	for v := range set {
		all = append(all, v)
	}
	sort.Slice(all, func(i, j int) bool { return all[i] < all[j] })
	if len(all) > n {
		all = all[:n]
	}
	slices.Reverse(all)
	return all
}

// mashHtab is the hash table of a case: the k-mers of every valid sequence.
func mashHtab(k int, seqGroups ...[][]byte) Val {
	m := map[string]uint64{}
	if k >= 0 {
		for _, seqs := range seqGroups {
			for _, s := range seqs {
				kms, ok := mashKmersRef([][]byte{s}, k)
				if !ok {
					continue
				}
				for _, km := range kms {
					m[string(km)] = mashHashRef(km)
				}
			}
		}
	}
	keys := make([]string, 0, len(m))
	for km := range m {
		keys = append(keys, km)
	}
	sort.Strings(keys)
	r := Val{K: 'l'}
	for _, km := range keys {
		r.L = append(r.L, L(S(km), u64Val(m[km])))
	}
	return r
}

func u64Val(x uint64) Val {
	var b [8]byte
	binary.BigEndian.PutUint64(b[:], x)
	return B(b[:])
}

func hashesVal(xs []uint64) Val {
	r := Val{K: 'l'}
	for _, x := range xs {
		r.L = append(r.L, u64Val(x))
	}
	return r
}

func valHashes(v Val) []uint64 {
	var r []uint64
	for _, e := range v.List() {
		r = append(r, binary.BigEndian.Uint64(e.Bytes()))
	}
	return r
}

func cloneSeqs(seqs [][]byte) [][]byte {
	r := make([][]byte, len(seqs))
	for i, s := range seqs {
		r[i] = slices.Clone(s)
	}
	return r
}

func sameSeqs(a, b [][]byte) bool {
	if len(a) != len(b) {
		return false
	}
	for i := range a {
		if !bytes.Equal(a[i], b[i]) {
			return false
		}
	}
	return true
}

// mashView runs Sequences and returns a copy of View(); ok=false on panic.
func mashView(n, k int, seqs [][]byte) (v []uint64, ok bool) {
	defer func() {
		if recover() != nil {
			v, ok = nil, false
		}
	}()
	return slices.Clone(mash.Sequences(n, k, cloneSeqs(seqs)...).View()), true
}

func swapCase(s []byte) []byte {
	r := slices.Clone(s)
	for i, b := range r {
		switch {
		case b >= 'a' && b <= 'z':
			r[i] = b - 32
		case b >= 'A' && b <= 'Z':
			r[i] = b + 32
		}
	}
	return r
}

func countKmers(seqs [][]byte, k int) int {
	c := 0
	for _, s := range seqs {
		if len(s)-k+1 > 0 {
			c += len(s) - k + 1
		}
	}
	return c
}

// expectPanic: whether the property's preconditions fail (n < 1, k < 0, or a
// byte outside aAcCgGtTnN), in which case the implementation panics.
func mashExpectPanic(n, k int, seqGroups ...[][]byte) bool {
	if n < 1 || k < 0 {
		return true
	}
	for _, seqs := range seqGroups {
		for _, s := range seqs {
			if _, ok := mashUpperRef(s); !ok {
				return true
			}
		}
	}
	return false
}

// mashVariantCheck evaluates the invariances of the property on the
// implementation: every variant of seqs must give exactly want.
func mashVariantCheck(n, k int, seqs [][]byte, want []uint64) string {
	eq := func(name string, v [][]byte) string {
		got, ok := mashView(n, k, v)
		if !ok {
			return name + ": panic"
		}
		if !slices.Equal(got, want) {
			return name + ": sketch changed"
		}
		return ""
	}
	// reverse complement: all, and every second sequence
	v := cloneSeqs(seqs)
	for i := range v {
		v[i] = rcRef(v[i])
	}
	if m := eq("reverse-complementing every sequence", v); m != "" {
		return m
	}
	v = cloneSeqs(seqs)
	for i := range v {
		if i%2 == 0 {
			v[i] = rcRef(v[i])
		}
	}
	if m := eq("reverse-complementing sequences 0,2,..", v); m != "" {
		return m
	}
	// letter case
	v = cloneSeqs(seqs)
	for i := range v {
		v[i] = swapCase(v[i])
	}
	if m := eq("swapping letter case", v); m != "" {
		return m
	}
	v = cloneSeqs(seqs)
	for i := range v {
		v[i] = bytes.ToLower(v[i])
	}
	if m := eq("lower-casing", v); m != "" {
		return m
	}
	// order
	v = cloneSeqs(seqs)
	slices.Reverse(v)
	if m := eq("reversing the order of the sequences", v); m != "" {
		return m
	}
	if len(v) > 2 {
		v = append(cloneSeqs(seqs[1:]), slices.Clone(seqs[0]))
		if m := eq("rotating the order of the sequences", v); m != "" {
			return m
		}
	}
	// duplicates do not matter (same k-mer set)
	v = append(cloneSeqs(seqs), cloneSeqs(seqs)...)
	if m := eq("giving every sequence twice", v); m != "" {
		return m
	}
	// incremental: one Add per sequence; and two halves
	mh := mash.Sequences(n, k)
	for _, s := range seqs {
		mash.Add(mh, k, slices.Clone(s))
	}
	if !slices.Equal(mh.View(), want) {
		return "incremental Add, one sequence at a time: sketch differs"
	}
	h := len(seqs) / 2
	mh = mash.Sequences(n, k, cloneSeqs(seqs[h:])...)
	mash.Add(mh, k, cloneSeqs(seqs[:h])...)
	if !slices.Equal(mh.View(), want) {
		return "Sequences(second half) + Add(first half): sketch differs"
	}
	// a smaller sketch is the tail of a larger one
	for _, n2 := range []int{1, n / 2, n - 1} {
		if n2 < 1 || n2 > n {
			continue
		}
		got, ok := mashView(n2, k, seqs)
		if !ok {
			return "smaller sketch: panic"
		}
		t := want
		if len(t) > n2 {
			t = t[len(t)-n2:]
		}
		if !slices.Equal(got, t) {
			return fmt.Sprintf("sketch of size %d is not the tail of the sketch of size %d", n2, n)
		}
	}
	return ""
}

var kMashSeq = register(&Kind{Name: "mash_sequences",
	Impl: func(in Val) Val {
		n, k, seqs0 := in.At(0).Int(), in.At(1).Int(), in.At(2).BytesList()
		seqs := cloneSeqs(seqs0)
		mh := mash.Sequences(n, k, seqs...)
		if !sameSeqs(seqs, seqs0) {
			return L(I(3), S("input modified"))
		}
		return vOk(hashesVal(mh.View()))
	},
	Oracle: func(in, out Val) string {
		n, k, seqs := in.At(0).Int(), in.At(1).Int(), in.At(2).BytesList()
		if mashExpectPanic(n, k, seqs) {
			if !isPanic(out) {
				return "n < 1, k < 0 or a byte outside aAcCgGtTnN did not panic"
			}
			return ""
		}
		if !isOk(out) {
			return "valid input: " + out.String()
		}
		got := valHashes(out.At(1))
		kms, _ := mashKmersRef(seqs, k)
		want := mashSketchRef(kms, n)
		if !slices.Equal(got, want) {
			return fmt.Sprintf("sketch is not the %d smallest distinct hash values of the canonical upper-cased k-mers, descending", n)
		}
		return mashVariantCheck(n, k, seqs, want)
	}})

var kMashAdd = register(&Kind{Name: "mash_add",
	Impl: func(in Val) Val {
		n, k := in.At(0).Int(), in.At(1).Int()
		bl := in.At(2).List()
		mh := mash.Sequences(n, k, bl[0].BytesList()...)
		for _, b := range bl[1:] {
			mash.Add(mh, k, b.BytesList()...)
		}
		return vOk(hashesVal(mh.View()))
	},
	Oracle: func(in, out Val) string {
		n, k := in.At(0).Int(), in.At(1).Int()
		var all [][]byte
		for _, b := range in.At(2).List() {
			all = append(all, b.BytesList()...)
		}
		if mashExpectPanic(n, k, all) {
			if !isPanic(out) {
				return "n < 1, k < 0 or a byte outside aAcCgGtTnN did not panic"
			}
			return ""
		}
		if !isOk(out) {
			return "valid input: " + out.String()
		}
		got := valHashes(out.At(1))
		kms, _ := mashKmersRef(all, k)
		if !slices.Equal(got, mashSketchRef(kms, n)) {
			return "incremental sketch is not the n smallest distinct hash values of all k-mers"
		}
		one, ok := mashView(n, k, all)
		if !ok || !slices.Equal(got, one) {
			return "Sequences + Add differs from one call of Sequences on all sequences"
		}
		return ""
	}})

func ulpApart(a, b float64) uint64 {
	if a == b {
		return 0
	}
	if math.IsNaN(a) || math.IsNaN(b) || math.Signbit(a) != math.Signbit(b) {
		return math.MaxUint64
	}
	x, y := math.Float64bits(a), math.Float64bits(b)
	if x > y {
		return x - y
	}
	return y - x
}

// mashDistRef: min(1, -ln(2j/(1+j))/k), 1 when j = 0.
func mashDistRef(j float64, k int) float64 {
	if j == 0 {
		return 1
	}
	return math.Min(1, -math.Log(2*j/(1+j))/float64(k))
}

func mashSketches(in Val) (a, b *minhash.MinHash[uint64]) {
	nA, nB, k := in.At(0).Int(), in.At(1).Int(), in.At(2).Int()
	a = mash.Sequences(nA, k, in.At(3).BytesList()...)
	b = mash.Sequences(nB, k, in.At(4).BytesList()...)
	return a, b
}

var kMashJaccard = register(&Kind{Name: "mash_jaccard",
	Impl: func(in Val) Val {
		a, b := mashSketches(in)
		return vOk(S(canonF(a.Jaccard(b))))
	},
	Oracle: func(in, out Val) string {
		nA, nB, k := in.At(0).Int(), in.At(1).Int(), in.At(2).Int()
		sa, sb := in.At(3).BytesList(), in.At(4).BytesList()
		if mashExpectPanic(min(nA, nB), k, sa, sb) {
			if !isPanic(out) {
				return "n < 1, k < 0 or a byte outside aAcCgGtTnN did not panic"
			}
			return ""
		}
		if !isOk(out) {
			return "valid input: " + out.String()
		}
		ka, _ := mashKmersRef(sa, k)
		kb, _ := mashKmersRef(sb, k)
		ra, rb := mashSketchRef(ka, nA), mashSketchRef(kb, nB)
		a, b := mashSketches(in)
		jac := a.Jaccard(b)
		if canonF(jac) != out.At(1).Str() {
			return "Jaccard is not reproducible"
		}
		if math.IsNaN(jac) || jac < 0 || jac > 1 {
			return fmt.Sprintf("Jaccard %v outside [0,1]", jac)
		}
		if nA != nB || len(ra) != nA || len(rb) != nA {
			return "" // the laws are stated for two full sketches of equal size
		}
		n := nA
		// shared fraction of the n smallest values of the union
		inA, inB := map[uint64]bool{}, map[uint64]bool{}
		var union []uint64
		for _, x := range ra {
			inA[x] = true
			union = append(union, x)
		}
		for _, x := range rb {
			inB[x] = true
			if !inA[x] {
				union = append(union, x)
			}
		}
		slices.Sort(union)
		shared := 0
		for _, x := range union[:n] {
			if inA[x] && inB[x] {
				shared++
			}
		}
		j := float64(shared) / float64(n)
		if jac != j {
			return fmt.Sprintf("Jaccard %v, want %d/%d", jac, shared, n)
		}
		if k < 1 {
			return ""
		}
		d := mash.Distance(a, b, k)
		d2 := mash.Distance(b, a, k)
		if !sameF(d, d2) {
			return fmt.Sprintf("Distance not symmetric: %v vs %v", d, d2)
		}
		if math.IsNaN(d) || d < 0 || d > 1 {
			return fmt.Sprintf("Distance %v outside [0,1]", d)
		}
		want := mashDistRef(j, k)
		if ulpApart(d, want) > 4 {
			return fmt.Sprintf("Distance %v, want min(1,-ln(2j/(1+j))/k) = %v for j=%d/%d", d, want, shared, n)
		}
		if shared == 0 && d != 1 {
			return "Distance is not 1 for j = 0"
		}
		if slices.Equal(ra, rb) && d != 0 {
			return fmt.Sprintf("Distance of identical k-mer content is %v, not 0", d)
		}
		if ds := mash.Distance(a, a, k); ds != 0 {
			return fmt.Sprintf("Distance of a sketch to itself is %v, not 0", ds)
		}
		return ""
	}})

// mash_fromjaccard [k]: FromJaccard on a grid (implementation + oracle only;
// the real-valued law is proved over Coq's R, float rounding is not modelled).
var kMashFromJ = register(&Kind{Name: "mash_fromjaccard", NoModel: true,
	Impl: func(in Val) Val {
		k := in.At(0).Int()
		return vOk(L(S(canonF(mash.FromJaccard(0, k))), S(canonF(mash.FromJaccard(0.5, k))), S(canonF(mash.FromJaccard(1, k)))))
	},
	Oracle: func(in, out Val) string {
		k := in.At(0).Int()
		if k < 1 {
			return ""
		}
		var grid []float64
		for i := 0; i <= 1024; i++ {
			grid = append(grid, float64(i)/1024)
		}
		for u := 1; u <= 48; u++ {
			for i := 0; i <= u; i++ {
				grid = append(grid, float64(i)/float64(u))
			}
		}
		grid = append(grid, 5e-324, 1e-300, 1e-17, 1-1e-16, math.Nextafter(1, 0))
		slices.Sort(grid)
		prev := math.Inf(1)
		for _, j := range grid {
			d := mash.FromJaccard(j, k)
			if math.IsNaN(d) || d < 0 || d > 1 {
				return fmt.Sprintf("FromJaccard(%v,%d) = %v outside [0,1]", j, k, d)
			}
			if d > prev {
				return fmt.Sprintf("FromJaccard(.,%d) increases at j=%v: %v after %v", k, j, d, prev)
			}
			if ulpApart(d, mashDistRef(j, k)) > 4 {
				return fmt.Sprintf("FromJaccard(%v,%d) = %v, want %v", j, k, d, mashDistRef(j, k))
			}
			prev = d
		}
		if mash.FromJaccard(0, k) != 1 {
			return "FromJaccard(0,k) != 1"
		}
		if mash.FromJaccard(1, k) != 0 {
			return "FromJaccard(1,k) != 0"
		}
		return ""
	}})

// ---- case construction ---------------------------------------------------------

func mashSeqCase(n, k int, seqs [][]byte) Val {
	return L(I(n), I(k), BL(seqs), mashHtab(k, seqs))
}

func mashAddCase(n, k int, batches [][][]byte) Val {
	bl := Val{K: 'l'}
	for _, b := range batches {
		bl.L = append(bl.L, BL(b))
	}
	return L(I(n), I(k), bl, mashHtab(k, batches...))
}

func mashJaccardCase(nA, nB, k int, sa, sb [][]byte) Val {
	// every (i,u) the implementation can reach: u <= min(nA, 2*(|A|+|B|)+2)
	u := 2*(countKmers(sa, max(k, 0))+countKmers(sb, max(k, 0))) + 2
	u = min(u, nA)
	dt := Val{K: 'l'}
	for x := 1; x <= u; x++ {
		for i := 0; i <= x; i++ {
			dt.L = append(dt.L, L(I(i), I(x), S(canonF(float64(i)/float64(x)))))
		}
	}
	return L(I(nA), I(nB), I(k), BL(sa), BL(sb), mashHtab(k, sa, sb), dt)
}

var mashAlphabets = [][]byte{
	[]byte("ACGT"), []byte("ACGT"), []byte("acgtACGT"), []byte("aAcCgGtTnN"), []byte("ACGTN"), []byte("AT"), []byte("A"),
}

func (c *Ctx) mashSeqs(maxSeqs int, lens []int) [][]byte {
	ns := c.Intn(maxSeqs + 1)
	alpha := mashAlphabets[c.Intn(len(mashAlphabets))]
	if c.Intn(5) < 3 && len(lens) > 6 { // rich: enough distinct k-mers to fill a sketch
		ns = 1 + c.Intn(maxSeqs)
		alpha = mashAlphabets[c.Intn(4)]
		lens = lens[len(lens)-4:]
	}
	seqs := make([][]byte, ns)
	for i := range seqs {
		seqs[i] = c.RandBytes(lens[c.Intn(len(lens))], alpha)
	}
	return seqs
}

func (c *Ctx) mashMutate(seqs [][]byte) [][]byte {
	r := cloneSeqs(seqs)
	for _, s := range r {
		if len(s) == 0 {
			continue
		}
		for t := c.Intn(1 + len(s)/8); t > 0; t-- {
			s[c.Intn(len(s))] = "ACGT"[c.Intn(4)]
		}
	}
	switch c.Intn(4) {
	case 0:
		if len(r) > 0 {
			r = r[1:]
		}
	case 1:
		r = append(r, c.RandBytes(c.Intn(30), []byte("ACGT")))
	}
	return r
}

func (c *Ctx) mashPartition(seqs [][]byte) [][][]byte {
	nb := 1 + c.Intn(4)
	batches := make([][][]byte, nb)
	for _, s := range seqs {
		i := c.Intn(nb)
		batches[i] = append(batches[i], s)
	}
	return batches
}

func init() {
	registerProp("C17", "random DNA sequence sets (0..4 sequences, lengths 0..200, mixed case, with N), k in 0..8 and k > length, n in 1..16 and large n (sketch not full); each input also as strand / case / order variants (model) and through every invariance on the implementation (oracle); incremental Add over random partitions; exhaustive small scope; foreign and non-ASCII bytes, n < 1, k < 0 -> panic; Jaccard/Distance on related and unrelated pairs, equal and unequal sizes, full and not full; FromJaccard on a grid for k = 1..32; non-trivial = valid input with at least one k-mer (for jaccard: both sides)", func(c *Ctx) {
		lens := []int{0, 1, 2, 3, 5, 8, 13, 21, 30, 60, 100, 200}
		pickN := func() int {
			switch c.Intn(10) {
			case 0:
				return c.Choose(64, 1000, 5000)
			case 1:
				return c.Choose(1, 2)
			}
			return 1 + c.Intn(16)
		}
		pickK := func(seqs [][]byte) int {
			switch c.Intn(12) {
			case 0:
				if len(seqs) > 0 {
					return len(seqs[0]) + c.Choose(0, 1, 5)
				}
			case 1:
				return c.Choose(11, 16, 21, 31)
			}
			return 1 + c.Intn(8)
		}

		// exhaustive small scope
		maxLen := c.Pick(4, 5)
		allStrings([]byte("AcGtN"), maxLen, func(s []byte) {
			for k := 1; k <= 3; k++ {
				for n := 1; n <= 3; n++ {
					c.Run(kMashSeq, mashSeqCase(n, k, [][]byte{s}), len(s) >= k, "sequences/exhaustive")
				}
			}
		})
		c.Exhaustive(fmt.Sprintf("all single sequences over AcGtN of length <= %d x k in 1..3 x n in 1..3", maxLen))
		allStrings([]byte("AcGT"), 2, func(s []byte) {
			allStrings([]byte("AcGT"), 2, func(t []byte) {
				for k := 0; k <= 2; k++ {
					for n := 1; n <= 3; n++ {
						c.Run(kMashAdd, mashAddCase(n, k, [][][]byte{{s}, {t}}), len(s) >= k || len(t) >= k, "add/exhaustive")
						c.Run(kMashJaccard, mashJaccardCase(n, n, k, [][]byte{s}, [][]byte{t}), len(s) >= k && len(t) >= k, "jaccard/exhaustive")
					}
				}
			})
		})
		c.Exhaustive("all pairs of sequences over AcGT of length <= 2 x k in 0..2 x n in 1..3 (add, jaccard)")

		// random inputs and all their variants
		nIn := c.Pick(400, 6000)
		for it := 0; it < nIn; it++ {
			seqs := c.mashSeqs(4, lens)
			k := pickK(seqs)
			n := pickN()
			nt := countKmers(seqs, k) > 0
			full := "full"
			if kms, _ := mashKmersRef(seqs, k); len(mashSketchRef(kms, min(n, 1<<20))) < n {
				full = "not-full"
			}
			c.Run(kMashSeq, mashSeqCase(n, k, seqs), nt, "sequences/random", "sequences/"+full)
			// strand variant
			v := cloneSeqs(seqs)
			for i := range v {
				if c.Intn(2) == 0 {
					v[i] = rcRef(v[i])
				}
			}
			c.Run(kMashSeq, mashSeqCase(n, k, v), nt, "sequences/variant-strand")
			// case variant
			v = cloneSeqs(seqs)
			for i := range v {
				for j := range v[i] {
					if c.Intn(2) == 0 {
						v[i][j] = swapCase(v[i][j : j+1])[0]
					}
				}
			}
			c.Run(kMashSeq, mashSeqCase(n, k, v), nt, "sequences/variant-case")
			// order variant
			v = cloneSeqs(seqs)
			c.Rng.Shuffle(len(v), func(i, j int) { v[i], v[j] = v[j], v[i] })
			c.Run(kMashSeq, mashSeqCase(n, k, v), nt, "sequences/variant-order")
			// smaller sketch
			c.Run(kMashSeq, mashSeqCase(1+c.Intn(min(n, 16)), k, seqs), nt, "sequences/variant-smaller-n")
			// incremental / re-partition
			c.Run(kMashAdd, mashAddCase(n, k, c.mashPartition(seqs)), nt, "add/partition")
			c.Run(kMashAdd, mashAddCase(n, k, c.mashPartition(v)), nt, "add/partition-shuffled")
			one := [][][]byte{{}}
			for _, s := range seqs {
				one = append(one, [][]byte{s})
			}
			c.Run(kMashAdd, mashAddCase(n, k, one), nt, "add/one-by-one")
		}

		// hairpins: sequences made of k-mers X + M + revcomp(X), which agree with their
		// own reverse complement on the first |X| bases; the sketch of such a sequence
		// and of its reverse complement must still be the same
		nHp := c.Pick(150, 2500)
		for it := 0; it < nHp; it++ {
			x := c.RandBytes(1+c.Intn(14), []byte("ACGT"))
			m := c.RandBytes(c.Intn(4), []byte("ACGT"))
			hp := append(append(append([]byte{}, x...), m...), rcRef(x)...)
			k := len(hp)
			sq := append(append(c.RandBytes(c.Intn(4), []byte("ACGT")), hp...), c.RandBytes(c.Intn(4), []byte("ACGT"))...)
			n := 1 + c.Intn(4)
			c.Run(kMashSeq, mashSeqCase(n, k, [][]byte{sq}), true, "sequences/hairpin")
			c.Run(kMashSeq, mashSeqCase(n, k, [][]byte{rcRef(sq)}), true, "sequences/hairpin-strand")
			c.Run(kMashJaccard, mashJaccardCase(n, n, k, [][]byte{sq}, [][]byte{rcRef(sq)}), true, "jaccard/hairpin-strand")
		}

		// malformed: foreign bytes, non-ASCII, bad n / k
		nBad := c.Pick(300, 3000)
		utf := [][]byte{{0xc4, 0xb1} /* U+0131, upper = I */, {0xc5, 0xbf} /* U+017F, upper = S */, {0xe2, 0x84, 0xaa} /* Kelvin sign */, {0xc3, 0xa9}, {0xff}, {0x80}, {0xc3}, {0xef, 0xbd, 0x81} /* fullwidth a */}
		for it := 0; it < nBad; it++ {
			seqs := c.mashSeqs(3, []int{1, 2, 5, 13, 40})
			if len(seqs) == 0 {
				seqs = [][]byte{c.RandBytes(5, []byte("ACGT"))}
			}
			k := 1 + c.Intn(6)
			n := 1 + c.Intn(8)
			strat := ""
			switch c.Intn(6) {
			case 0:
				n = c.Choose(0, -1, -1<<40)
				strat = "bad-n"
			case 1:
				k = c.Choose(-1, -2, -1<<40)
				strat = "negative-k"
			case 2:
				k = 0
				strat = "k=0"
			case 3:
				i := c.Intn(len(seqs))
				p := c.Intn(len(seqs[i]) + 1)
				u := utf[c.Intn(len(utf))]
				seqs[i] = append(append(slices.Clone(seqs[i][:p]), u...), seqs[i][p:]...)
				strat = "non-ascii"
			default:
				i := c.Intn(len(seqs))
				if len(seqs[i]) == 0 {
					seqs[i] = []byte{0}
				}
				seqs[i][c.Intn(len(seqs[i]))] = byte(c.Intn(256))
				strat = "random-byte"
			}
			c.Run(kMashSeq, mashSeqCase(n, k, seqs), true, "sequences/malformed/"+strat)
			if c.Intn(3) == 0 {
				c.Run(kMashAdd, mashAddCase(n, k, c.mashPartition(seqs)), true, "add/malformed/"+strat)
			}
			if c.Intn(3) == 0 {
				other := c.mashSeqs(2, []int{3, 8, 20})
				if c.Intn(2) == 0 {
					c.Run(kMashJaccard, mashJaccardCase(max(n, 1), max(n, 1), k, other, seqs), true, "jaccard/malformed/"+strat)
				} else {
					c.Run(kMashJaccard, mashJaccardCase(n, n, k, seqs, other), true, "jaccard/malformed/"+strat)
				}
			}
		}
		for b := 0; b < 256; b++ {
			c.Run(kMashSeq, mashSeqCase(2, 2, [][]byte{{'A', byte(b), 'c', 'G'}}), true, "sequences/all-bytes")
		}
		c.Exhaustive("all 256 byte values inside a sequence (accept/panic boundary)")

		// Jaccard / Distance
		nJ := c.Pick(1500, 20000)
		for it := 0; it < nJ; it++ {
			var sa, sb [][]byte
			n := 1 + c.Intn(16)
			strat := ""
			switch c.Intn(8) {
			case 0: // unrelated
				sa, sb = c.mashSeqs(3, lens[:10]), c.mashSeqs(3, lens[:10])
				strat = "unrelated"
			case 1: // identical content, different presentation
				sa = c.mashSeqs(3, lens[:10])
				sb = cloneSeqs(sa)
				for i := range sb {
					if c.Intn(2) == 0 {
						sb[i] = rcRef(sb[i])
					}
					if c.Intn(2) == 0 {
						sb[i] = swapCase(sb[i])
					}
				}
				slices.Reverse(sb)
				strat = "identical-content"
			case 2: // large n, short sequences: sketches not full
				sa = c.mashSeqs(2, []int{0, 1, 2, 3, 5, 8})
				sb = c.mashMutate(sa)
				n = c.Choose(17, 40, 1000, 5000)
				strat = "large-n"
			default:
				sa = c.mashSeqs(3, lens[:10])
				sb = c.mashMutate(sa)
				strat = "mutated"
			}
			k := pickK(sa)
			nA, nB := n, n
			if c.Intn(10) == 0 {
				nB = 1 + c.Intn(16)
				strat += "/unequal-n"
			}
			ka, _ := mashKmersRef(sa, k)
			kb, _ := mashKmersRef(sb, k)
			fa, fb := len(mashSketchRef(ka, min(nA, 1<<20))) == nA, len(mashSketchRef(kb, min(nB, 1<<20))) == nB
			fs := "jaccard/both-full"
			if !fa || !fb {
				fs = "jaccard/not-full"
			}
			c.Run(kMashJaccard, mashJaccardCase(nA, nB, k, sa, sb), len(ka) > 0 && len(kb) > 0, "jaccard/"+strat, fs)
			if c.Intn(4) == 0 {
				c.Run(kMashJaccard, mashJaccardCase(nB, nA, k, sb, sa), len(ka) > 0 && len(kb) > 0, "jaccard/swapped", fs)
			}
		}

		for k := 1; k <= 32; k++ {
			c.Run(kMashFromJ, L(I(k)), true, "fromjaccard/grid")
		}
		for _, k := range []int{64, 100, 1000, 1 << 40} {
			c.Run(kMashFromJ, L(I(k)), true, "fromjaccard/grid")
		}
	})
}
