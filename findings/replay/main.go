// Command replay exercises the defects D1..D10 of DESIGN.md section 1 against
// the library in /repo and prints, per defect, what the real code does.
// It was run before and after the fix commits; both outputs are kept beside it.
package main

import (
	"bytes"
	"errors"
	"fmt"
	"io"
	"os"
	"path/filepath"
	"strings"

	"github.com/fluhus/biostuff/align"
	"github.com/fluhus/biostuff/formats/bed"
	"github.com/fluhus/biostuff/formats/fastq"
	"github.com/fluhus/biostuff/formats/newick"
	"github.com/fluhus/biostuff/formats/sam"
	"github.com/fluhus/biostuff/regions"
	"github.com/fluhus/biostuff/sequtil"
)

type failAfter struct {
	data    []byte
	forever bool
	failed  bool
}

func (f *failAfter) Read(p []byte) (int, error) {
	if len(f.data) == 0 {
		if f.forever || !f.failed {
			f.failed = true
			return 0, errors.New("injected fault")
		}
		return 0, io.EOF
	}
	n := copy(p, f.data)
	f.data = f.data[n:]
	return n, nil
}


func try(name string, f func()) {
	defer func() {
		if r := recover(); r != nil {
			fmt.Printf("%s: PANIC %v\n", name, r)
		}
	}()
	f()
}

func main() {
	try("D1 fastq 70000-base read", func() {
		r := &fastq.Fastq{Name: []byte("r"), Sequence: bytes.Repeat([]byte("A"), 70000), Quals: bytes.Repeat([]byte("I"), 70000)}
		txt, _ := r.MarshalText()
		n := 0
		for fq, err := range fastq.Reader(bytes.NewReader(txt)) {
			if err != nil {
				fmt.Printf("D1: error %v\n", err)
				return
			}
			n++
			fmt.Printf("D1: record ok, len %d\n", len(fq.Sequence))
		}
		fmt.Printf("D1: %d records\n", n)
	})
	try("D2 sam quote", func() {
		for _, s := range []*sam.SAM{
			{Qname: "\"q", Rname: "r", Cigar: "*", Rnext: "*", Seq: "ACGT", Qual: "IIII"},
			{Qname: "q", Rname: "r", Cigar: "*", Rnext: "*", Seq: "ACGT", Qual: "\"!!!"},
		} {
			txt, _ := s.MarshalText()
			txt = append(txt, txt...)
			for got, err := range sam.Reader(bytes.NewReader(txt)) {
				if err != nil {
					fmt.Printf("D2: %q -> error %v\n", txt, err)
				} else {
					fmt.Printf("D2: %q -> record qname=%q qual=%q\n", txt, got.Qname, got.Qual)
				}
			}
		}
	})
	try("D3 bed quote", func() {
		b := &bed.BED{N: 4, Chrom: "c", ChromStart: 1, ChromEnd: 2, Name: "a\"b"}
		txt, _ := b.MarshalText()
		for got, err := range bed.Reader(bytes.NewReader(txt)) {
			if err != nil {
				fmt.Printf("D3: %q -> error %v\n", txt, err)
			} else {
				fmt.Printf("D3: %q -> name=%q\n", txt, got.Name)
			}
		}
	})
	try("D4 newick LF in name", func() {
		n := &newick.Node{Name: "a\nb"}
		txt, _ := n.MarshalText()
		for got, err := range newick.Reader(bytes.NewReader(txt)) {
			if err != nil {
				fmt.Printf("D4: %q -> error %v\n", txt, err)
			} else {
				fmt.Printf("D4: %q -> name=%q\n", txt, got.Name)
			}
		}
	})
	try("D5 bed.File", func() {
		dir, _ := os.MkdirTemp("", "replay")
		defer os.RemoveAll(dir)
		p := filepath.Join(dir, "x.bed")
		os.WriteFile(p, []byte("c\t1\t2\n"), 0o644)
		n := 0
		for range bed.File(p) {
			n++
		}
		m := 0
		for range bed.Reader(strings.NewReader("c\t1\t2\n")) {
			m++
		}
		fmt.Printf("D5: File yields %d items, Reader yields %d\n", n, m)
	})
	try("D6 sam failing stream", func() {
		s := &sam.SAM{Qname: "q", Rname: "r", Cigar: "*", Rnext: "*", Seq: "A", Qual: "I", Tags: map[string]any{"XX": 77}}
		txt, _ := s.MarshalText()
		for _, forever := range []bool{false, true} {
			n := 0
			for got, err := range sam.Reader(&failAfter{data: txt[:len(txt)-2], forever: forever}) {
				n++
				if err != nil {
					fmt.Printf("D6 forever=%v: item %d error %v\n", forever, n, err)
				} else {
					fmt.Printf("D6 forever=%v: item %d record tags=%v\n", forever, n, got.Tags)
				}
				if n >= 4 {
					fmt.Printf("D6 forever=%v: stopped by the consumer after %d items\n", forever, n)
					break
				}
			}
			fmt.Printf("D6 forever=%v: %d items\n", forever, n)
		}
	})
	try("D7 align affine", func() {
		m := align.SubstitutionMatrix{{'a', 'a'}: 1, {'a', 'b'}: -1, {'b', 'a'}: -1, {'b', 'b'}: 1,
			{'a', align.Gap}: -1, {'b', align.Gap}: -1, {align.Gap, 'a'}: -1, {align.Gap, 'b'}: -1, {align.Gap, align.Gap}: -2}
		st, sc := align.Global([]byte("a"), []byte("aaab"), m)
		fmt.Printf("D7: Global(a,aaab) = %v %v (optimum -4: M III)\n", st, sc)
		m2 := align.SubstitutionMatrix{{'a', 'a'}: 2, {'a', 'b'}: 0, {'b', 'a'}: 0, {'b', 'b'}: 2,
			{'a', align.Gap}: 0, {'b', align.Gap}: 0, {align.Gap, 'a'}: 0, {align.Gap, 'b'}: 0, {align.Gap, align.Gap}: -1}
		st2, ai, bi, sc2 := align.Local([]byte("ababba"), []byte("aaaa"), m2)
		fmt.Printf("D7: Local(ababba,aaaa) = %v %d %d %v (optimum 5)\n", st2, ai, bi, sc2)
	})
	try("D8 sam A tag", func() {
		in := "q\t0\tr\t0\t0\t*\t*\t0\t0\tA\tI\tXX:A:\xc3\n"
		for got, err := range sam.Reader(strings.NewReader(in)) {
			if err != nil {
				fmt.Printf("D8: read error %v\n", err)
				continue
			}
			txt, _ := got.MarshalText()
			fmt.Printf("D8: accepted, rewritten as %q\n", txt)
			for _, err2 := range sam.Reader(bytes.NewReader(txt)) {
				fmt.Printf("D8: re-read error=%v\n", err2)
			}
		}
	})
	for _, s := range [][]byte{nil, []byte("A"), []byte("AC")} {
		try(fmt.Sprintf("D9 frames(%q)", s), func() {
			fmt.Printf("D9: frames(%q) = %q\n", s, sequtil.TranslateReadingFrames(s))
		})
	}
	try("D10 regions", func() {
		idx := regions.NewIndex([]int{5, 2}, []int{3, 2})
		fmt.Printf("D10: starts=[5 2] ends=[3 2]: At(7)=%v At(4)=%v At(2)=%v (want none)\n", idx.At(7), idx.At(4), idx.At(2))
	})
}
